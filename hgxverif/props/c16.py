import ast

from .. import cmpshape as M
from .. import rng as R
from ..calls import check_self_attrs
from ..kinds import IDX, Atom, elem_of
from ..model import AnalysisError, is_self_attr, loc, norm, walk_no_nested
from ..report import Result
from ..rules_container import _atoms, _implied_branch
from ._containers import KIND_RULES

LEVEL_TEXT = (
    "Structural necessary conditions of C16, decided statically: every random draw reachable from HyMMSBMSampler.sample comes "
    "from a numpy Generator that was constructed from the constructor's seed (the sampler's own and the wrapped model's), the seed "
    "reaches both constructors unconditionally, helper fallbacks to an unseeded default_rng() are never taken, no global-module "
    "draw is reachable; every self attribute read exists; the only yield builds Hypergraph(weighted=True) from weights that passed "
    "the `> 0` filter with the SAME index set as the hyperedges and the duplicate merge; labels are mapped in with transform and "
    "out with inverse_transform of the same mapping.  Decides the structure, not the degree / size conditioning."
)


def _seed_expr_ok(e, seed="seed"):
    """the expression handed to a generator constructor is `seed` or arithmetic on it - never something that can turn a
    non-None seed into None / a constant"""
    if isinstance(e, ast.Name):
        return e.id == seed
    if isinstance(e, ast.BinOp):
        return _seed_expr_ok(e.left, seed) or _seed_expr_ok(e.right, seed)
    if isinstance(e, ast.IfExp):
        t = norm(e.test)
        if t == f"{seed} is not None":
            return _seed_expr_ok(e.body, seed) and isinstance(e.orelse, ast.Constant) and e.orelse.value is None
        if t == f"{seed} is None":
            return _seed_expr_ok(e.orelse, seed) and isinstance(e.body, ast.Constant) and e.body.value is None
        return False
    return False


def check_seeded_generators(ctx, res, cls_name, entry, rule="R-SEEDED"):
    ci = ctx.prog.cls(cls_name)
    init = ci.methods["__init__"]
    f = init.short
    gens = []
    for n in ast.walk(init.node):
        if isinstance(n, ast.Call):
            dn = R.extern_name(ctx.prog, init, n)
            if dn in ("numpy.random.default_rng", "numpy.random.RandomState", "numpy.random.Generator"):
                gens.append(n)
    res.check(bool(gens), rule, f, "np.random.default_rng(seed)", "own-generator", f"{cls_name} constructs no seeded generator", loc(init, init.node))
    for g in gens:
        a = g.args[0] if g.args else next((k.value for k in g.keywords if k.arg == "seed"), None)
        res.check(a is not None and _seed_expr_ok(a), rule, f, norm(g), "from-seed", "the generator is not constructed from the `seed` parameter (or can lose it)", loc(init, g))
    return gens


def run(ctx):
    res = Result("C16")
    res.rules.update({k: KIND_RULES[k] for k in ("C-SIG", "K-ARG")})
    res.rules.update({
        "R-SEEDED": "every generator reachable from sample() is built from the constructor's seed; the wrapped model receives the seed",
        "R-FALLBACK": "helpers with an `rng or default_rng()` fallback are always handed a generator",
        "R-GLOBAL": "no global-module draw (np.random.* / random.*) is reachable from sample()",
        "M-NONE": "the seed is never tested by truthiness (seed 0 is a seed)",
        "C-ATTR": "every self attribute read exists in the class",
        "Y-WEIGHTED": "the yielded hypergraph is weighted, built from filtered (> 0) weights and hyperedges selected with the same index set, duplicates merged by summation",
        "B-MAXSIZE": "a hyperedge size drawn at random by the sampler lies in [2, max_hye_size]",
        "K-IDX": "labels go in through mapping.transform and come out through mapping.inverse_transform of the same mapping, under the same condition",
    })
    files = ["hypergraphx/generation/hy_mmsbm_sampling.py"]
    ctx.add_sites(res, ctx.sites(rules=("C-SIG", "K-ARG"), files=files))
    with res.guard("check_self_attrsctx, res, HyMMSBMSampler"):
        check_self_attrs(ctx, res, "HyMMSBMSampler")
    with res.guard("check_self_attrsctx, res, HyMMSBM"):
        check_self_attrs(ctx, res, "HyMMSBM")
    with res.guard("check_seeded_generatorsctx, res, HyMMSBMSampler, sample"):
        check_seeded_generators(ctx, res, "HyMMSBMSampler", "sample")
    with res.guard("check_seeded_generatorsctx, res, HyMMSBM, fit"):
        check_seeded_generators(ctx, res, "HyMMSBM", "fit")
    init = ctx.require("HyMMSBMSampler.__init__")
    with res.guard("M.check_none_testsctx, res, HyMMSBMSampler.__init__, paramsseed,"):
        M.check_none_tests(ctx, res, "HyMMSBMSampler.__init__", params=("seed",))
    with res.guard("M.check_none_testsctx, res, HyMMSBM.__init__, paramsseed,"):
        M.check_none_tests(ctx, res, "HyMMSBM.__init__", params=("seed",))
    with res.guard("seeding of the wrapped model; draws reachable from sample(); generator fallbacks"):
        # the wrapped model receives the seed
        ctor = [n for n in ast.walk(init.node) if isinstance(n, ast.Call) and isinstance(n.func, ast.Name) and n.func.id == "HyMMSBM"]
        if not ctor:
            raise AnalysisError("HyMMSBMSampler.__init__: construction of the wrapped model not found")
        for c in ctor:
            kw = {k.arg: k.value for k in c.keywords}
            res.check("seed" in kw and _seed_expr_ok(kw["seed"]), "R-SEEDED", init.short, norm(c), "model-seed", "the wrapped HyMMSBM is built without the sampler's seed (or with an expression that can lose it): its generator is seeded from OS entropy", loc(init, c))
        # draws reachable from sample()
        entry = ctx.require("HyMMSBMSampler.sample")
        clo = R.closure(ctx, entry)
        n_draws = 0
        for g in clo:
            for d in R.draws_in(ctx, g):
                n_draws += 1
                if d.source.startswith("global:"):
                    res.violation("R-GLOBAL", g.short, norm(d.node), d.source, "a draw from a global module state is reachable from sample(): two samplers with the same seed diverge", d.where())
                else:
                    recv = d.source.split(":", 1)[1]
                    ok = recv in ("self._rng", "rng")
                    res.check(ok, "R-SEEDED", g.short, norm(d.node), recv, f"draw from `{recv}`, which is not the seeded generator of the sampler / model", d.where())
        if n_draws < 5:
            raise AnalysisError(f"only {n_draws} draw sites found in the closure of sample() (expected the MCMC, sequence and weight draws)")
        res.ok("R-GLOBAL", entry.short, f"{n_draws} draw sites in {len(clo)} reachable functions", "scan", loc(entry, entry.node))
        # R-FALLBACK
        fallback_fns = {}
        for fi in ctx.prog.functions.values():
            # a helper that builds its own generator when none is handed in: `rng if rng is not None else default_rng()`,
            # `rng or default_rng()`, `if rng is None: rng = default_rng()`
            if fi.parent is None and "rng" in [a.arg for a in fi.params] and any(isinstance(n, ast.Call) and norm(n.func).endswith("default_rng") and any(isinstance(p_, (ast.IfExp, ast.If, ast.BoolOp)) for p_ in [x for x in ast.walk(fi.node) if any(y is n for y in ast.walk(x))]) for n in ast.walk(fi.node)):
                fallback_fns[fi.qualname] = fi
        for cf in ctx.interp.callfacts:
            if cf.callee.qualname in fallback_fns and cf.caller.qualname in {g.qualname for g in clo}:
                arg = next((k.value for k in cf.node.keywords if k.arg == "rng"), None)
                if arg is None:
                    idx = [a.arg for a in cf.callee.params].index("rng")
                    arg = cf.node.args[idx] if idx < len(cf.node.args) else None
                ok = arg is not None and norm(arg) in ("self._rng", "rng")
                res.check(ok, "R-FALLBACK", cf.caller.short, norm(cf.node), cf.callee.short, f"{cf.callee.short} is called without a generator: it falls back to an unseeded default_rng()", loc(cf.caller, cf.node))
    # ---- Y-WEIGHTED
    # ---- B-MAXSIZE: a hyperedge size drawn at random inside the sampler stays within [2, max_hye_size]
    with res.guard("B-MAXSIZE"):
        n_draws = 0
        for name, mfi in sorted(ctx.methods("HyMMSBMSampler").items()):
            mv = ctx.view(mfi)
            for n in walk_no_nested(mfi.node):
                if not (isinstance(n, ast.Assign) and len(n.targets) == 1 and isinstance(n.targets[0], ast.Name) and isinstance(n.value, ast.Call) and isinstance(n.value.func, ast.Attribute) and n.value.func.attr in ("integers", "randint")):
                    continue
                var = n.targets[0].id
                # is the drawn number used as a hyperedge size?  (handed to a parameter called *size* of a sampler method)
                used_as_size = False
                for c in walk_no_nested(mfi.node):
                    if isinstance(c, ast.Call):
                        for callee in ctx.callees(mfi, c):
                            pn = [a.arg for a in callee.params]
                            if callee.cls is not None and not callee.is_static:
                                pn = pn[1:]
                            for i, a in enumerate(c.args):
                                if isinstance(a, ast.Name) and a.id == var and i < len(pn) and "size" in pn[i]:
                                    used_as_size = True
                            for kw in c.keywords:
                                if kw.arg and "size" in kw.arg and isinstance(kw.value, ast.Name) and kw.value.id == var:
                                    used_as_size = True
                if not used_as_size:
                    continue
                n_draws += 1
                args = list(n.value.args)
                kw = {k.arg: k.value for k in n.value.keywords}
                lo = kw.get("low", args[0] if args else None)
                hi = kw.get("high", args[1] if len(args) > 1 else None)
                if hi is None:
                    lo, hi = None, lo
                hi_i = mv.inline(hi) if hi is not None else None
                mentions = hi_i is not None and any((isinstance(x, ast.Attribute) and x.attr == "max_hye_size") or (isinstance(x, ast.Name) and "max_hye_size" in x.id) for x in ast.walk(hi_i))
                free = {x.id for x in ast.walk(hi_i) if isinstance(x, ast.Name)} if hi_i is not None else set()
                opaque = any(
                    isinstance(d_, ast.Assign) and any(isinstance(t, ast.Name) and t.id in free for t in d_.targets) and any((isinstance(x, ast.Attribute) and x.attr == "max_hye_size") or (isinstance(x, ast.Name) and "max_hye_size" in x.id) for x in ast.walk(mv.inline(d_.value)))
                    for d_ in walk_no_nested(mfi.node)
                ) or bool(free & {a_.arg for a_ in mfi.params})
                capped = mentions and not (isinstance(hi_i, ast.Call) and norm(hi_i.func) == "max")
                st = "ok" if capped else ("unknown" if mentions or opaque or hi_i is None else "violation")
                res.add("B-MAXSIZE", mfi.short, norm(n), "high<=max_hye_size+1", st, "" if st == "ok" else f"the size of an extra hyperedge is drawn below `{norm(hi_i) if hi_i is not None else '?'}`, which is not capped by the model's max_hye_size: hyperedges larger than the maximum size are built into the sample", loc(mfi, n))
                lo_i = mv.inline(lo) if lo is not None else None
                if isinstance(lo_i, ast.Constant) and isinstance(lo_i.value, int):
                    res.check(lo_i.value >= 2, "B-MAXSIZE", mfi.short, norm(n), "low>=2", "a drawn hyperedge size can be below 2", loc(mfi, n))
        if not n_draws:
            res.unknown("B-MAXSIZE", "HyMMSBMSampler", "hye_size = self._rng.integers(2, max_hye_size + 1)", "high<=max_hye_size+1", "no random draw of a hyperedge size recognised", "")
    # ---- Y-MATCH: when the greedy construction runs out of nodes with residual degree the sequences did not match: that path
    #      records it (matching_sequences = False) whatever it does next (fill up with zero-degree nodes / shrink the hyperedge)
    with res.guard("Y-MATCH"):
        res.rules["Y-MATCH"] = "the path on which the degree / size sequences cannot be realised sets matching_sequences = False before it fills up or shrinks the hyperedge"
        ev_ = ctx.view("HyMMSBMSampler._extract_hye")
        handlers = [h_ for t_ in ast.walk(ev_.fi.node) if isinstance(t_, ast.Try) for h_ in t_.handlers if h_.type is not None and "StopIteration" in norm(h_.type)]
        if not handlers:
            res.unknown("Y-MATCH", ev_.fi.short, "except StopIteration:", "records-mismatch", "the place where the construction runs out of nodes was not recognised", loc(ev_.fi, ev_.fi.node))
        for h_ in handlers:
            sets = [x for x in ast.walk(h_) if isinstance(x, ast.Assign) and any(is_self_attr(t, "matching_sequences") for t in x.targets) and isinstance(x.value, ast.Constant) and x.value.value is False]
            top = [x for x in h_.body if x in sets]
            # `self._flag_mismatch()`: a private setter that does the same assignment unconditionally
            selfcalls = [x.value for x in h_.body if isinstance(x, ast.Expr) and isinstance(x.value, ast.Call) and is_self_attr(x.value.func)]
            for c_ in selfcalls:
                for callee in ctx.callees(ev_.fi, c_):
                    if any(isinstance(y, ast.Assign) and any(is_self_attr(t, "matching_sequences") for t in y.targets) and isinstance(y.value, ast.Constant) and y.value.value is False for y in callee.node.body):
                        top.append(c_)
            raises = any(isinstance(x, ast.Raise) for x in h_.body)
            # does the function hand the mismatch back to its caller instead (a second return value)?
            rets = [r for r in walk_no_nested(ev_.fi.node) if isinstance(r, ast.Return) and isinstance(r.value, ast.Tuple)]
            st_ = "ok" if top or raises else ("unknown" if sets or rets else "violation")
            # the flag is set on SOME branches of the handler only, and another branch pads the hyperedge (stores into the chosen-nodes
            # table) without it: that path hands back a full-size hyperedge built from exhausted nodes and reports nothing
            if st_ == "unknown" and sets and not rets:
                def chain(n_):
                    out, cur = [], n_
                    while cur is not h_ and id(cur) in ev_.parent:
                        par = ev_.parent[id(cur)]
                        if isinstance(par, ast.If):
                            out.append((id(par), "body" if any(cur is x for x in par.body) else "orelse"))
                        cur = par
                    return list(reversed(out))

                pads = [x for x in ast.walk(h_) if isinstance(x, ast.Assign) and any(isinstance(t, ast.Subscript) and isinstance(t.value, ast.Name) and "chosen" in t.value.id for t in x.targets)]
                set_chains = [chain(x) for x in sets]
                uncovered = [p_ for p_ in pads if not any(chain(p_)[: len(sc)] == sc for sc in set_chains)]
                if pads and uncovered:
                    st_ = "violation"
            res.add("Y-MATCH", ev_.fi.short, "except StopIteration: self.matching_sequences = False", "records-mismatch", st_, "" if st_ == "ok" else "the construction runs out of nodes with residual degree without recording that the sequences do not match: a hyperedge filled up with zero-degree nodes has full size, so the caller cannot notice, and sample() reports an unrealisable conditioning as matching", loc(ev_.fi, h_))
    # ---- G-DIMSEQ: the size sequence is respected even when the sequences do not match: a hyperedge whose size is DRAWN (not
    #      taken from the size sequence) is only added when no size sequence is forced
    with res.guard("G-DIMSEQ"):
        res.rules["G-DIMSEQ"] = "_match_sequences adds a hyperedge of randomly drawn size only on paths where no size sequence is forced (`not force_dim_seq`)"
        mv = ctx.view("HyMMSBMSampler._match_sequences")
        mparams = {a.arg for a in mv.fi.params}
        flag = next((p_ for p_ in ("force_dim_seq",) if p_ in mparams), None)
        n_extra = 0

        def nearest_def(name, at):
            """the definition of the local `name` that reaches `at`: the closest dominating assignment / loop header"""
            aid = mv.cfg_id(at)
            best = None
            for d_ in walk_no_nested(mv.fi.node):
                tg = None
                if isinstance(d_, ast.Assign) and len(d_.targets) == 1 and isinstance(d_.targets[0], ast.Name) and d_.targets[0].id == name:
                    tg, val, did = d_, d_.value, mv.cfg_id(d_)
                elif isinstance(d_, ast.For) and any(isinstance(x, ast.Name) and x.id == name for x in ast.walk(d_.target)):
                    tg, val, did = d_, None, mv.cfg.by_ast.get(id(d_))
                if tg is None or did is None or aid is None or did == aid or not mv.cfg.dominates(did, aid):
                    continue
                if best is None or mv.cfg.dominates(best[2], did):
                    best = (tg, val, did)
            return best

        def is_drawn(e, at, depth=0):
            if any(isinstance(x, ast.Attribute) and x.attr in ("_rng", "integers", "randint") for x in ast.walk(e)):
                return True
            if isinstance(e, ast.Name) and depth < 3:
                d_ = nearest_def(e.id, at)
                return d_ is not None and d_[1] is not None and is_drawn(d_[1], d_[0], depth + 1)
            return False

        for n in walk_no_nested(mv.fi.node):
            if not (isinstance(n, ast.Call) and isinstance(n.func, ast.Attribute) and n.func.attr in ("append", "add") and n.args):
                continue
            e = n.args[0]
            if isinstance(e, ast.Name):
                d_ = nearest_def(e.id, n)
                e = d_[1] if d_ is not None and d_[1] is not None else e
                at = d_[0] if d_ is not None else n
            else:
                at = n
            # the size handed to the hyperedge builder
            sizes = [a_ for c_ in ast.walk(e) if isinstance(c_, ast.Call) and isinstance(c_.func, ast.Attribute) and c_.func.attr == "_extract_hye" for a_ in c_.args[1:2]]
            drawn = [a_ for a_ in sizes if is_drawn(a_, at)]
            if not drawn:
                continue
            n_extra += 1
            if flag is None:
                res.unknown("G-DIMSEQ", mv.fi.short, norm(n), "guarded", "no force_dim_seq parameter", loc(mv.fi, n))
                continue
            nid = mv.cfg_id(n)
            ok = False
            for iff in walk_no_nested(mv.fi.node):
                if not isinstance(iff, (ast.If, ast.While)):
                    continue
                t_i = mv.inline(iff.test)
                for atom, _ in _atoms(t_i, True):
                    if isinstance(atom, ast.Name) and atom.id == flag:
                        lab = _implied_branch(t_i, atom, False)
                        tid = mv.cfg.by_ast.get(id(iff.test))
                        if lab and tid is not None and mv.cfg.branch_dominated(tid, lab, nid):
                            ok = True
            if not ok:
                # the flags may travel in an options object built from them (`forcing = _Forcing(force_deg_seq, force_dim_seq)`) and be
                # interpreted by its properties (`if forcing.exhausts_degrees:`): whether that property implies `not force_dim_seq`
                # is the object's business - undecided here
                carriers = {a_.targets[0].id for a_ in walk_no_nested(mv.fi.node) if isinstance(a_, ast.Assign) and len(a_.targets) == 1 and isinstance(a_.targets[0], ast.Name) and isinstance(a_.value, ast.Call) and any(isinstance(x, ast.Name) and x.id == flag for x in ast.walk(a_.value))}
                via_obj = False
                for iff in walk_no_nested(mv.fi.node):
                    if isinstance(iff, (ast.If, ast.While)):
                        tid = mv.cfg.by_ast.get(id(iff.test))
                        if tid is not None and any(mv.cfg.branch_dominated(tid, lab_, nid) for lab_ in ("T", "F")) and any(isinstance(x, ast.Attribute) and isinstance(x.value, ast.Name) and x.value.id in carriers for x in ast.walk(iff.test)):
                            via_obj = True
                if via_obj:
                    res.unknown("G-DIMSEQ", mv.fi.short, norm(n), "guarded", "the top-up stands under a property of an options object built from the forcing flags; what the property means was not decided", loc(mv.fi, n))
                    continue
            res.check(ok, "G-DIMSEQ", mv.fi.short, norm(n), "guarded", f"a hyperedge of randomly drawn size (`{norm(drawn[0])[:60]}`) is added on a path where the size sequence may be forced: the sample then has more hyperedges of that size than the conditioned count", loc(mv.fi, n))
        if n_extra == 0:
            res.unknown("G-DIMSEQ", mv.fi.short, "hye_list.append(self._extract_hye(nodes_with_deg, <drawn size>, ...))", "guarded", "no top-up with hyperedges of drawn size recognised", loc(mv.fi, mv.fi.node))
    # ---- Y-2PHASE: a hyperedge is drawn class by class from the residual-degree table and the table is updated AFTERWARDS: an
    #      update inside the drawing loop moves a drawn node into the next class, where the same hyperedge can draw it again
    with res.guard("Y-2PHASE"):
        res.rules["Y-2PHASE"] = "_extract_hye draws all nodes of a hyperedge before it updates the residual-degree table it draws from (no store into the table inside the drawing loop)"
        xv = ctx.view("HyMMSBMSampler._extract_hye")
        xp = [a.arg for a in xv.fi.params]
        n_loops = 0
        for lp in [n for n in walk_no_nested(xv.fi.node) if isinstance(n, (ast.For, ast.While))]:
            draws = [c for c in ast.walk(lp) if isinstance(c, ast.Call) and isinstance(c.func, ast.Attribute) and c.func.attr in ("choice", "sample", "permutation", "shuffle") and any(isinstance(x, ast.Attribute) and x.attr.endswith("rng") for x in ast.walk(c.func))]
            tabs = {x.id for c in draws for x in ast.walk(c) if isinstance(x, ast.Name) and x.id in xp and x.id != "self"}
            tabs = {t for t in tabs if any(isinstance(x, ast.Subscript) and isinstance(x.value, ast.Name) and x.value.id == t for c in draws for x in ast.walk(c))}
            if not draws or not tabs:
                continue
            n_loops += 1
            stores = [n for n in ast.walk(lp) if isinstance(n, (ast.Assign, ast.AugAssign)) and any(isinstance(t, ast.Subscript) and isinstance(t.value, ast.Name) and t.value.id in tabs for t in (n.targets if isinstance(n, ast.Assign) else [n.target]))]
            stores += [n for n in ast.walk(lp) if isinstance(n, ast.Call) and isinstance(n.func, ast.Attribute) and n.func.attr in ("add", "discard", "remove", "update", "pop", "difference_update") and isinstance(n.func.value, ast.Subscript) and isinstance(n.func.value.value, ast.Name) and n.func.value.value.id in tabs]
            if stores:
                res.violation("Y-2PHASE", xv.fi.short, norm(stores[0])[:110], "draw-then-update", f"`{sorted(tabs)[0]}` is updated inside the loop that draws the nodes of the hyperedge from it: a node moved down one degree class can be drawn again for the same hyperedge (the hyperedge comes out one node short and the node loses two units of degree)", loc(xv.fi, stores[0]))
            else:
                res.ok("Y-2PHASE", xv.fi.short, norm(draws[0])[:110], "draw-then-update", loc(xv.fi, draws[0]))
        # the same on the CFG: no draw from the table is reachable from an update of the table (a top-up pool read after the
        # degrees were lowered contains the nodes just drawn for this very hyperedge)
        all_draws = [c for c in walk_no_nested(xv.fi.node) if isinstance(c, ast.Call) and isinstance(c.func, ast.Attribute) and c.func.attr in ("choice", "sample", "permutation", "shuffle") and any(isinstance(x, ast.Attribute) and x.attr.endswith("rng") for x in ast.walk(c.func))]
        for c in all_draws:
            for t in {x.value.id for x in ast.walk(c) if isinstance(x, ast.Subscript) and isinstance(x.value, ast.Name) and x.value.id in xp and x.value.id != "self"}:
                ups = [n for n in walk_no_nested(xv.fi.node) if isinstance(n, (ast.Assign, ast.AugAssign)) and any(isinstance(tg, ast.Subscript) and isinstance(tg.value, ast.Name) and tg.value.id == t for tg in (n.targets if isinstance(n, ast.Assign) else [n.target]))]
                cid = xv.cfg_id(c)
                late = [u for u in ups if cid is not None and xv.cfg_id(u) is not None and xv.cfg_id(u) != cid and xv.cfg.reaches_without(xv.cfg_id(u), cid, set())]
                if late and not any(u for lp in walk_no_nested(xv.fi.node) if isinstance(lp, (ast.For, ast.While)) for u in late if any(u is y for y in ast.walk(lp)) and any(c is y for y in ast.walk(lp))):
                    res.violation("Y-2PHASE", xv.fi.short, norm(c)[:110], "update-then-draw", f"nodes are drawn from `{t}` after `{norm(late[0])[:60]}` has updated it for the nodes already chosen for this hyperedge: the pool now contains those very nodes (a node demoted to the class can be drawn again; the hyperedge collapses below the requested size)", loc(xv.fi, c))
        if n_loops == 0:
            res.unknown("Y-2PHASE", xv.fi.short, "while n_nodes_sampled < hye_size: ... rng.choice(list(nodes_with_deg[deg]), ...)", "draw-then-update", "the drawing loop was not recognised", loc(xv.fi, xv.fi.node))
    # ---- Y-SWAPPAIR: an accepted move replaces BOTH hyperedges of the drawn pair; the pair keeps the multiset union of its
    #      nodes only when the two write-backs happen together
    with res.guard("Y-SWAPPAIR"):
        res.rules["Y-SWAPPAIR"] = "_mcmc_step writes both reshuffled hyperedges back under the same conditions (a move is applied to both slots or to none: the pair keeps its nodes' degrees)"
        mv_ = ctx.view("HyMMSBMSampler._mcmc_step")
        lists = [a.arg for a in mv_.fi.params if a.arg != "self"]
        stores = [n for n in walk_no_nested(mv_.fi.node) if isinstance(n, ast.Assign) and len(n.targets) == 1 and isinstance(n.targets[0], ast.Subscript) and isinstance(n.targets[0].value, ast.Name) and n.targets[0].value.id in lists]
        if not stores:
            res.unknown("Y-SWAPPAIR", mv_.fi.short, "hye_list[idx1] = ...; hye_list[idx2] = ...", "both-or-none", "the write-back of an accepted move was not recognised (it may be delegated)", loc(mv_.fi, mv_.fi.node))
        else:
            encl = [{id(i): i for i in mv_.enclosing_all(s_, (ast.If,))} for s_ in stores]
            common = set.intersection(*[set(e) for e in encl])
            lone = [(s_, e[k]) for s_, e in zip(stores, encl) for k in e if k not in common]
            # a single store inside a loop over the (slot, hyperedge) pairs, under a test on the loop's own variables
            for s_ in stores:
                lp = mv_.enclosing(s_, (ast.For,))
                if lp is not None:
                    tn = {x.id for x in ast.walk(lp.target) if isinstance(x, ast.Name)}
                    for i in mv_.enclosing_all(s_, (ast.If,)):
                        if any(i is y for y in ast.walk(lp)) and tn & {x.id for x in ast.walk(i.test) if isinstance(x, ast.Name)}:
                            lone.append((s_, i))
            if lone:
                s_, i = lone[0]
                res.violation("Y-SWAPPAIR", mv_.fi.short, norm(s_)[:100], "both-or-none", f"the write-back `{norm(s_)[:50]}` stands under `{norm(i.test)[:50]}`, a condition of its own slot: when it holds for one of the two proposed hyperedges only, one slot takes the reshuffled hyperedge and the other keeps the old one - a node gains an incidence and another loses one (degrees are no longer conserved by the chain)", loc(mv_.fi, s_))
            else:
                res.ok("Y-SWAPPAIR", mv_.fi.short, norm(stores[0])[:100], "both-or-none", loc(mv_.fi, stores[0]))
    with res.guard("Y-WEIGHTED"):
        v = ctx.view("HyMMSBMSampler.sample")
        f = v.fi.short
        ys = [n for n in walk_no_nested(v.fi.node) if isinstance(n, ast.Yield)]
        if len(ys) != 1 or not isinstance(v.inline(ys[0].value), ast.Call) or norm(v.inline(ys[0].value).func) != "Hypergraph":
            raise AnalysisError(f"{f}: yield idiom not recognised")
        ycall = v.inline(ys[0].value, depth=1)
        kw = {k.arg: k.value for k in ycall.keywords}
        wflag = kw.get("weighted")
        res.add("Y-WEIGHTED", f, norm(ys[0]), "weighted=True", "ok" if isinstance(wflag, ast.Constant) and wflag.value is True else ("violation" if wflag is None or isinstance(wflag, ast.Constant) else "unknown"), "the produced hypergraph is not weighted", loc(v.fi, ys[0]))

        def dict_of(e, what):
            """name of the dict D when e is list(D) / list(D.keys()) (what='keys') or list(D.values()) (what='values')"""
            if e is None:
                return None
            e = v.inline(e, depth=1) if isinstance(e, ast.Name) else e
            if isinstance(e, ast.Call) and norm(e.func) in ("list", "tuple") and len(e.args) == 1:
                x = e.args[0]
                if what == "keys" and isinstance(x, ast.Name):
                    return x.id
                if isinstance(x, ast.Call) and isinstance(x.func, ast.Attribute) and x.func.attr == what and isinstance(x.func.value, ast.Name):
                    return x.func.value.id
            return None

        d1, d2 = dict_of(kw.get("edge_list"), "keys"), dict_of(kw.get("weights"), "values")
        if d1 and d2:
            res.check(d1 == d2, "Y-WEIGHTED", f, norm(ys[0]), "same-dict", "hyperedges and weights of the produced hypergraph do not come from the same merged dict (they would be out of step)", loc(v.fi, ys[0]))
        else:
            res.unknown("Y-WEIGHTED", f, norm(ys[0]), "same-dict", "edge_list / weights of the produced hypergraph are not list(D) / list(D.values()) of one dict", loc(v.fi, ys[0]))
        merged = d1 if d1 and d1 == d2 else None
        hname = wname = None
        if merged:
            stores = [n for n in walk_no_nested(v.fi.node) if isinstance(n, (ast.AugAssign, ast.Assign)) and any(isinstance(t, ast.Subscript) and norm(t.value) == merged for t in ([n.target] if isinstance(n, ast.AugAssign) else n.targets))]
            augs = [n for n in stores if isinstance(n, ast.AugAssign)]
            if augs:
                res.check(all(isinstance(a_.op, ast.Add) for a_ in augs), "Y-WEIGHTED", f, norm(augs[0]), "merge", "duplicate hyperedges are not merged by summing their weights", loc(v.fi, augs[0]))
            elif stores:
                summing = [n for n in stores if isinstance(n.value, ast.BinOp) and isinstance(n.value.op, ast.Add) and merged in norm(n.value)]
                res.add("Y-WEIGHTED", f, norm(stores[0]), "merge", "ok" if summing else "violation", "" if summing else "duplicate hyperedges are not merged by summing their weights (the last weight wins)", loc(v.fi, stores[0]))
            else:
                res.unknown("Y-WEIGHTED", f, f"{merged}[edge] += w", "merge", "the statement that fills the merged dict was not recognised", loc(v.fi, ys[0]))
            for a_ in augs:
                lp = v.enclosing(a_, (ast.For,))
                it = lp.iter if lp is not None else None
                if isinstance(it, ast.Call) and norm(it.func) == "zip" and len(it.args) == 2 and all(isinstance(x, ast.Name) for x in it.args) and isinstance(lp.target, ast.Tuple) and len(lp.target.elts) == 2:
                    e_t, w_t = norm(lp.target.elts[0]), norm(lp.target.elts[1])
                    ok = norm(a_.target.slice) == e_t and norm(a_.value) == w_t
                    res.check(ok, "Y-WEIGHTED", f, norm(lp.iter), "zip", "the merge does not pair each hyperedge with its own weight", loc(v.fi, a_))
                    hname, wname = it.args[0].id, it.args[1].id
                else:
                    res.unknown("Y-WEIGHTED", f, norm(it) if it is not None else norm(a_), "zip", "the loop that pairs hyperedges with weights was not recognised", loc(v.fi, a_))
        if hname and wname:
            # zero weights are dropped from BOTH lists with ONE index set, before the merge
            def positive_test(e):
                for x in ast.walk(e):
                    if isinstance(x, ast.Compare) and len(x.ops) == 1:
                        l, r, op = x.left, x.comparators[0], x.ops[0]
                        if (norm(l) == wname and isinstance(op, ast.Gt) and isinstance(r, ast.Constant) and r.value == 0) or (norm(r) == wname and isinstance(op, ast.Lt) and isinstance(l, ast.Constant) and l.value == 0) or (norm(l) == wname and isinstance(op, ast.NotEq) and isinstance(r, ast.Constant) and r.value == 0):
                            return True
                return False

            nz = [n for n in walk_no_nested(v.fi.node) if isinstance(n, ast.Assign) and isinstance(n.targets[0], ast.Name) and positive_test(n.value) and any(t in norm(n.value) for t in ("where", "nonzero", "flatnonzero"))]
            wsel_all = [n for n in walk_no_nested(v.fi.node) if isinstance(n, ast.Assign) and norm(n.targets[0]) == wname and isinstance(n.value, ast.Subscript) and norm(n.value.value) == wname]
            hsel_all = [n for n in walk_no_nested(v.fi.node) if isinstance(n, ast.Assign) and norm(n.targets[0]) == hname and isinstance(n.value, ast.ListComp) and len(n.value.generators) == 1 and isinstance(n.value.elt, ast.Subscript) and norm(n.value.elt.value) == hname and norm(n.value.elt.slice) == norm(n.value.generators[0].target)]
            if len(nz) == 1:
                res.ok("Y-WEIGHTED", f, norm(nz[0]), "filter", loc(v.fi, nz[0]))
                ix = nz[0].targets[0].id
                wsel = [n for n in wsel_all if norm(n.value.slice) == ix]
                hsel = [n for n in hsel_all if norm(n.value.generators[0].iter) == ix]
                if wsel and hsel:
                    res.ok("Y-WEIGHTED", f, f"{wname}[{ix}] / [{hname}[i] for i in {ix}]", "same-index-set", loc(v.fi, nz[0]))
                    yid = v.cfg_id(ys[0])
                    res.check(v.cfg.dominates(v.cfg_id(wsel[0]), yid) and v.cfg.dominates(v.cfg_id(hsel[0]), yid), "Y-WEIGHTED", f, norm(wsel[0]), "before-yield", "the zero-weight filter does not precede the yield on every path", loc(v.fi, wsel[0]))
                elif (wsel_all or hsel_all) and (bool(wsel) != bool(hsel)) and (wsel_all and hsel_all or not (wsel_all and hsel_all)):
                    # one list is filtered with the index set, the other with another one / not at all
                    other = (hsel_all if wsel else wsel_all)
                    res.add("Y-WEIGHTED", f, f"{wname}[{ix}] / [{hname}[i] for i in {ix}]", "same-index-set", "violation" if other or (wsel or hsel) else "unknown", "weights and hyperedges are filtered with different index sets: weights end up on the wrong hyperedges", loc(v.fi, nz[0]))
                else:
                    res.unknown("Y-WEIGHTED", f, f"{wname}[{ix}] / [{hname}[i] for i in {ix}]", "same-index-set", "the statements that apply the filter were not recognised", loc(v.fi, nz[0]))
            elif not nz and not wsel_all and not hsel_all and not any(positive_test(n) for n in walk_no_nested(v.fi.node) if isinstance(n, ast.expr)):
                res.violation("Y-WEIGHTED", f, f"nonzero = np.where({wname} > 0)[0]", "filter", "zero weights are not filtered out", loc(v.fi, ys[0]))
            else:
                res.unknown("Y-WEIGHTED", f, f"nonzero = np.where({wname} > 0)[0]", "filter", "the zero-weight filter was not recognised", loc(v.fi, ys[0]))
    # ---- K-IDX mapping in / out
    with res.guard("K-IDX mapping in / out"):
        v = ctx.view("HyMMSBMSampler.sample")
        f = v.fi.short
        params = [a.arg for a in v.fi.params]
        mdefs = [n for n in walk_no_nested(v.fi.node) if isinstance(n, ast.Assign) and isinstance(n.targets[0], ast.Name) and isinstance(n.value, ast.Call) and isinstance(n.value.func, ast.Attribute) and n.value.func.attr == "get_mapping"]
        if not mdefs:
            raise AnalysisError(f"{f}: node mapping not found")
        mvar = mdefs[0].targets[0].id
        src = norm(mdefs[0].value.func.value)
        res.check(all(norm(x.value.func.value) == "initial_hyg" for x in mdefs if x.targets[0].id == mvar) and "initial_hyg" in params, "K-IDX", f, norm(mdefs[0]), "mapping-of-initial", "the mapping is not that of the initial hypergraph", loc(v.fi, mdefs[0]))
        tr = [n for n in walk_no_nested(v.fi.node) if isinstance(n, ast.Attribute) and n.attr == "transform" and norm(n.value) == mvar]
        inv = [n for n in walk_no_nested(v.fi.node) if isinstance(n, ast.Attribute) and n.attr == "inverse_transform" and norm(n.value) == mvar]
        if tr and inv:
            res.ok("K-IDX", f, f"{mvar}.transform / {mvar}.inverse_transform", "both-directions", loc(v.fi, v.fi.node))
        elif tr or inv:
            helper = any(isinstance(n, ast.Call) and any(isinstance(a_, ast.Name) and a_.id == mvar for a_ in n.args) for n in walk_no_nested(v.fi.node))
            res.add("K-IDX", f, f"{mvar}.transform / {mvar}.inverse_transform", "both-directions", "unknown" if helper else "violation", "node labels are mapped to indices but not back (or vice versa)", loc(v.fi, v.fi.node))
        else:
            res.unknown("K-IDX", f, f"{mvar}.transform / {mvar}.inverse_transform", "both-directions", "uses of the mapping were not recognised", loc(v.fi, v.fi.node))
        for n in inv:
            nid = v.cfg_id(n)
            ok = False
            any_if = False
            for i in [x for x in walk_no_nested(v.fi.node) if isinstance(x, ast.If)]:
                for atom, _ in _atoms(i.test, True):
                    given = None
                    if isinstance(atom, ast.Name) and atom.id == "initial_hyg":
                        given = True
                    elif isinstance(atom, ast.Compare) and norm(atom) in ("initial_hyg is not None", "initial_hyg is None"):
                        given = norm(atom).endswith("is not None")
                    if given is None:
                        continue
                    any_if = True
                    lab = _implied_branch(i.test, atom, given)
                    if lab and v.cfg.branch_dominated(v.cfg.by_ast[id(i.test)], lab, nid):
                        ok = True
            res.add("K-IDX", f, norm(n), "condition", "ok" if ok else ("unknown" if any_if or v.enclosing_all(n, (ast.If,)) else "violation"), "" if ok else "the inverse mapping is not applied exactly when an initial hypergraph was given", loc(v.fi, n))
    res.assumptions += ["numpy Generators constructed from equal seeds produce equal streams (library)", "degree / size conditioning and chain invariants are not decided (set algebra + asserts)"]
    # ---- Y-DYADONCE: with exact dyadic sampling the sampled pairs are used ONCE: folded into the degree / size sequence that is
    #      sampled (when the other one is given), or handed to the chain as fixed hyperedges (when neither is given).  The path
    #      conditions of "fold" and "append as fixed" exclude each other - decided on the truth table of their atoms (local flags
    #      are read through their definitions: `deg_seq_given = deg_seq is not None`)
    with res.guard("Y-DYADONCE"):
        res.rules["Y-DYADONCE"] = "the exactly sampled pairs are never both folded into a conditioned sequence and appended as fixed hyperedges (the two path conditions exclude each other)"
        import itertools as _it

        sfi = ctx.require("HyMMSBMSampler._sampling_from_sequences")
        sv = ctx.view(sfi)

        def flag_def(name):
            ds = [a for a in walk_no_nested(sfi.node) if isinstance(a, ast.Assign) and len(a.targets) == 1 and isinstance(a.targets[0], ast.Name) and a.targets[0].id == name]
            return ds[0].value if len(ds) == 1 and isinstance(ds[0].value, (ast.Compare, ast.BoolOp, ast.UnaryOp)) and sv.enclosing(ds[0], (ast.For, ast.While, ast.If)) is None else None

        def ev(e, env, atoms):
            if isinstance(e, ast.BoolOp):
                vals = [ev(x, env, atoms) for x in e.values]
                return all(vals) if isinstance(e.op, ast.And) else any(vals)
            if isinstance(e, ast.UnaryOp) and isinstance(e.op, ast.Not):
                return not ev(e.operand, env, atoms)
            if isinstance(e, ast.Name) and flag_def(e.id) is not None:
                return ev(flag_def(e.id), env, atoms)
            if isinstance(e, ast.Compare) and len(e.ops) == 1 and isinstance(e.ops[0], (ast.Is, ast.IsNot)) and isinstance(e.comparators[0], ast.Constant) and e.comparators[0].value is None:
                key = norm(e.left) + " is None"
                atoms.add(key)
                val = env.get(key, False)
                return val if isinstance(e.ops[0], ast.Is) else not val
            key = norm(e)
            atoms.add(key)
            return env.get(key, False)

        def path_condition(node):
            out = []
            cur = node
            while True:
                par = sv.parent.get(id(cur))
                if par is None or par is sfi.node:
                    break
                if isinstance(par, ast.If):
                    if any(cur is x for x in par.body):
                        out.append((par.test, True))
                    elif any(cur is x for x in par.orelse):
                        out.append((par.test, False))
                cur = par
            return out

        def holds(conds, env, atoms):
            return all(ev(t, env, atoms) == pol for t, pol in conds)

        uses_edges = lambda e: any(isinstance(x, ast.Name) and x.id == "edges" for x in ast.walk(e))
        fixed = [a for a in walk_no_nested(sfi.node) if isinstance(a, ast.Assign) and any(isinstance(t, ast.Name) and "fixed" in t.id for t in a.targets) and uses_edges(a.value)]
        folds = [a for a in walk_no_nested(sfi.node) if isinstance(a, (ast.AugAssign, ast.Assign)) and uses_edges(a.value) and any(("deg_seq" in norm(t) or "dim_seq" in norm(t)) for t in ([a.target] if isinstance(a, ast.AugAssign) else a.targets))]
        if not fixed or not folds:
            res.unknown("Y-DYADONCE", sfi.short, "fixed_hyperedges = ... edges ...", "exclusive", "the statements that fold the sampled pairs into a sequence / append them as fixed hyperedges were not recognised", loc(sfi, sfi.node))
        for fx in fixed:
            cf = path_condition(fx)
            # `fixed_hyperedges = [...edges...] if <cond> else None`: the arm that uses the pairs runs under the test of the expression
            if isinstance(fx.value, ast.IfExp):
                if uses_edges(fx.value.body) and not uses_edges(fx.value.orelse):
                    cf = cf + [(fx.value.test, True)]
                elif uses_edges(fx.value.orelse) and not uses_edges(fx.value.body):
                    cf = cf + [(fx.value.test, False)]
            for fo in folds:
                co = path_condition(fo)
                atoms = set()
                holds(cf + co, {}, atoms)
                alist = sorted(atoms)
                both = None
                if len(alist) <= 8:
                    for bits in _it.product((False, True), repeat=len(alist)):
                        env = dict(zip(alist, bits))
                        if holds(cf, env, set()) and holds(co, env, set()):
                            both = env
                            break
                    res.check(both is None, "Y-DYADONCE", sfi.short, norm(fx)[:80], f"vs {norm(fo)[:40]}", f"`{norm(fo)[:50]}` (the sampled pairs are folded into the sampled sequence) and `{norm(fx)[:50]}` (they are appended as fixed hyperedges) can both run - e.g. when {', '.join(k_ for k_, b_ in (both or {}).items() if b_) or 'no atom holds'}: the pairs are counted twice, so the conditioned sizes / degrees are exceeded", loc(sfi, fx))
                else:
                    res.unknown("Y-DYADONCE", sfi.short, norm(fx)[:80], f"vs {norm(fo)[:40]}", "too many atoms in the path conditions", loc(sfi, fx))
    with res.guard("general lint pack over the property's files"):
        from ..lints import check_pack

        check_pack(ctx, res, "C16")
    return res

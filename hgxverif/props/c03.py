import ast

from ._containers import run_container

LEVEL_TEXT = (
    "Structural necessary conditions of C03 on TemporalHypergraph, decided statically: kind inference (units-of-measure for node / "
    "edge id / canonical key / weight / time / layer / size / order) over every table access and call of the class, plus CFG "
    "dominance / must-pass-through rules for the joint update of the tables.  Decides the structure, not the behavioural "
    "equivalence with the abstract model."
)


def run(ctx):
    res = run_container(ctx, "C03", "TemporalHypergraph")
    return extra(ctx, res)


def extra(ctx, res):
    import ast

    from .. import cmpshape as M
    from .. import rules_container as RC
    from ..kinds import Atom, Tup, elem_of
    from ..model import AnalysisError, loc, norm, walk_no_nested
    from ._clients import DEGREE, check_filter_clients

    cls = "TemporalHypergraph"
    with res.guard("G-GROUPBY in the temporal extractors"):
        from ..lints import check_groupby_sorted

        res.rules["G-GROUPBY"] = "records are grouped by time only after sorting by time (itertools.groupby merges consecutive items only)"
        for m in ("subhypergraph", "aggregate", "get_edges"):
            if m in ctx.methods(cls):
                check_groupby_sorted(ctx, res, f"{cls}.{m}")
    res.rules.update({
        "P-TIMEVAL": "the record-creating store is dominated by the rejection of non-integer and of negative times",
        "M-WINDOW": "a time compared against a window is `lo <= t < hi`",
        "K-UNIQ": "the no-repeats guard of a weighted batch ranges over (time, edge) records, not over node tuples",
        "P-ABSENT": "snapshot completion adds a node under the negated membership test",
    })
    with res.guard("RC.check_time_validationctx, res"):
        RC.check_time_validation(ctx, res)
    for m in ("get_edges", "subhypergraph", "aggregate"):
        with res.guard("M.check_windowctx, res, fcls.m"):
            M.check_window(ctx, res, f"{cls}.{m}")
    with res.guard("check_uniqctx, res, cls, TIME"):
        check_uniq(ctx, res, cls, "TIME")
    # ---- G-SCOPE: inside the window builder the records of ONE window are what counts: a whole-history query (`get_times_for_edge`,
    #      `get_edges()` without the window) consumed without a comparison of each time against the window bounds sums / picks over
    #      every recurrence of the node set, whatever window it falls in
    with res.guard("G-SCOPE in aggregate"):
        res.rules["G-SCOPE"] = "aggregate() takes weights and metadata of a window from the records whose time lies in that window: a whole-history listing of a node set's times is restricted to the window before it is summed / picked from"
        av = ctx.view(f"{cls}.aggregate")
        n_hist = 0
        for c in walk_no_nested(av.fi.node):
            if not (isinstance(c, ast.Call) and isinstance(c.func, ast.Attribute) and c.func.attr == "get_times_for_edge"):
                continue
            n_hist += 1
            # names that hold the listing
            holder = av.stmt_of(c)
            names = {t.id for t in getattr(holder, "targets", []) if isinstance(t, ast.Name)} if isinstance(holder, ast.Assign) else set()
            # consumers: comprehensions / loops over the call or the names; restricted when a chained / paired comparison of the loop
            # variable stands in the comprehension's ifs or guards the loop body
            restricted = False
            consumers = 0
            for n in walk_no_nested(av.fi.node):
                gens = n.generators if isinstance(n, (ast.GeneratorExp, ast.ListComp, ast.SetComp, ast.DictComp)) else []
                for g in gens:
                    if g.iter is c or (isinstance(g.iter, ast.Name) and g.iter.id in names):
                        consumers += 1
                        tv = {x.id for x in ast.walk(g.target) if isinstance(x, ast.Name)}
                        if any(isinstance(x, ast.Compare) and any(isinstance(o, (ast.Lt, ast.LtE, ast.Gt, ast.GtE)) for o in x.ops) and tv & {y.id for y in ast.walk(x) if isinstance(y, ast.Name)} for i_ in g.ifs for x in ast.walk(i_)):
                            restricted = True
                if isinstance(n, ast.For) and (n.iter is c or (isinstance(n.iter, ast.Name) and n.iter.id in names)):
                    consumers += 1
                    tv = {x.id for x in ast.walk(n.target) if isinstance(x, ast.Name)}
                    if any(isinstance(x, ast.Compare) and any(isinstance(o, (ast.Lt, ast.LtE, ast.Gt, ast.GtE)) for o in x.ops) and tv & {y.id for y in ast.walk(x) if isinstance(y, ast.Name)} for b in n.body for x in ast.walk(b) if isinstance(b, ast.If) for x in ast.walk(b.test)):
                        restricted = True
                if isinstance(n, ast.Call) and isinstance(n.func, ast.Name) and n.func.id in ("max", "min", "sum", "len", "sorted") and n.args and (n.args[0] is c or (isinstance(n.args[0], ast.Name) and n.args[0].id in names)):
                    consumers += 1
            if consumers and not restricted:
                res.violation("G-SCOPE", av.fi.short, norm(c)[:80], "window-restricted", f"`{norm(c)[:50]}` lists EVERY time at which the node set occurs; it is summed / picked from without comparing the times with the window bounds: a hyperedge that recurs in another window carries the weight (and the latest metadata) of its whole history into each window", loc(av.fi, c))
            elif consumers:
                res.ok("G-SCOPE", av.fi.short, norm(c)[:80], "window-restricted", loc(av.fi, c))
            else:
                res.unknown("G-SCOPE", av.fi.short, norm(c)[:80], "window-restricted", "how the whole-history listing is consumed was not recognised", loc(av.fi, c))
        if n_hist == 0:
            res.ok("G-SCOPE", av.fi.short, "no whole-history query in the window builder", "window-restricted", loc(av.fi, av.fi.node))
    # snapshot completion: add_node guarded by check_node must sit on the negated branch
    v = ctx.view(f"{cls}.subhypergraph")
    found = 0
    for n in walk_no_nested(v.fi.node):
        if isinstance(n, ast.Call) and isinstance(n.func, ast.Attribute) and n.func.attr == "add_node":
            found += 1
            ifs = [i for i in v.enclosing_all(n, (ast.If,))]
            verdict, why = "unknown", "add_node not guarded by a check_node test"
            for i in ifs:
                t = i.test
                neg = False
                while isinstance(t, ast.UnaryOp) and isinstance(t.op, ast.Not):
                    neg = not neg
                    t = t.operand
                if isinstance(t, ast.Call) and isinstance(t.func, ast.Attribute) and t.func.attr == "check_node" and norm(t.func.value) == norm(n.func.value):
                    in_body = any(n is x for b in i.body for x in ast.walk(b))
                    absent_branch = (neg and in_body) or (not neg and not in_body)
                    verdict = "ok" if absent_branch else "violation"
                    why = "" if absent_branch else "add_node is executed only when the node is already present: missing nodes are never added to the snapshot"
            # an unguarded add_node is fine too (add_node is idempotent)
            if verdict == "unknown" and not ifs:
                verdict, why = "ok", ""
            res.add("P-ABSENT", v.fi.short, norm(n), "add-if-absent", verdict, why, loc(v.fi, n))
    if not found:
        res.unknown("P-ABSENT", "TemporalHypergraph.subhypergraph", "h.add_node(node)", "add-if-absent", "no add_node call in the snapshot / window builders themselves (they may delegate)", "hypergraphx/core/temporal_hypergraph.py")
    with res.guard("check_filter_clientsctx, res, DEGREE:2"):
        check_filter_clients(ctx, res, DEGREE[:2])
    # ---- M-SWEEP: aggregate() walks the records ONCE with a pointer that only moves forward while `t_start <= records[p][0] < t_end`:
    #      that finds every record of a window only when the records are sorted by time.  The hyperedge index is in insertion order
    #      (a later add_edge with an earlier time, a re-insertion after remove_node(keep_edges=True))
    with res.guard("M-SWEEP"):
        res.rules["M-SWEEP"] = "the one-pass window sweep of aggregate() runs over the records sorted by time (never over the edge index in insertion order)"
        av = ctx.view("TemporalHypergraph.aggregate")
        swept = []
        for w in walk_no_nested(av.fi.node):
            if isinstance(w, ast.While):
                for x in ast.walk(w.test):
                    if isinstance(x, ast.Subscript) and isinstance(x.value, ast.Subscript) and isinstance(x.value.value, ast.Name) and isinstance(x.slice, ast.Constant) and x.slice.value == 0 and isinstance(x.value.slice, ast.Name):
                        swept.append((x.value.value.id, w))
        if not swept:
            res.unknown("M-SWEEP", av.fi.short, "while ... sorted_edges[edge_index][0] < t_end", "sorted", "no pointer sweep over a record list recognised", loc(av.fi, av.fi.node))
        for name_, w in swept[:1]:
            defs = [a for a in walk_no_nested(av.fi.node) if isinstance(a, ast.Assign) and any(isinstance(t, ast.Name) and t.id == name_ for t in a.targets)]
            is_sorted = lambda e: isinstance(e, ast.Call) and ((isinstance(e.func, ast.Name) and e.func.id == "sorted") or (isinstance(e.func, ast.Name) and e.func.id in ("list", "tuple") and e.args and is_sorted(e.args[0])))
            sorted_defs = [a for a in defs if is_sorted(av.inline(a.value, depth=2))]
            in_place = any(isinstance(c, ast.Call) and isinstance(c.func, ast.Attribute) and c.func.attr == "sort" and isinstance(c.func.value, ast.Name) and c.func.value.id == name_ for c in walk_no_nested(av.fi.node))
            from_index = any(isinstance(x, ast.Call) and isinstance(x.func, ast.Attribute) and x.func.attr in ("get_edges", "keys") or (isinstance(x, ast.Attribute) and x.attr == "_edge_list") for a in defs for x in ast.walk(a.value))
            if defs and (len(sorted_defs) == len(defs) or in_place):
                res.ok("M-SWEEP", av.fi.short, norm(defs[0])[:80], "sorted", loc(av.fi, defs[0]))
            elif defs and from_index:
                res.violation("M-SWEEP", av.fi.short, norm(defs[0])[:80], "sorted", f"`{name_}` is the edge index in INSERTION order, and the window sweep moves its pointer forward only: a record with an earlier time that was inserted after a later one is never reached in its window (and stops the sweep for the records behind it)", loc(av.fi, defs[0]))
            else:
                res.unknown("M-SWEEP", av.fi.short, name_, "sorted", "how the swept record list is ordered was not decided", loc(av.fi, w))
    with res.guard("general lint pack over the property's files"):
        from ..lints import check_pack

        check_pack(ctx, res, "C03")
    return res


def check_uniq(ctx, res, cls, component):
    import ast

    from ..kinds import Atom, Seq, Tup, elem_of, _Top
    from ..model import loc, norm, walk_no_nested

    v = ctx.view(f"{cls}.add_edges")
    n_found = 0
    for n in walk_no_nested(v.fi.node):
        if isinstance(n, ast.Compare) and len(n.ops) == 1 and isinstance(n.ops[0], (ast.NotEq, ast.Eq)):
            for side in (n.left, n.comparators[0]):
                if isinstance(side, ast.Call) and isinstance(side.func, ast.Name) and side.func.id == "len" and side.args and isinstance(side.args[0], ast.Call) and isinstance(side.args[0].func, ast.Name) and side.args[0].func.id == "set" and side.args[0].args:
                    n_found += 1
                    k = elem_of(v.kind(side.args[0].args[0]))
                    has = isinstance(k, Tup) and any(isinstance(i, Atom) and i.name == component for i in k.items)
                    only_nodes = isinstance(k, Seq) or (isinstance(k, Tup) and not any(isinstance(i, Atom) and i.name == component for i in k.items))
                    status = "ok" if has else ("violation" if only_nodes else "unknown")
                    res.add("K-UNIQ", v.fi.short, norm(n), component, status, "" if has else f"the uniqueness guard ranges over {k!r}: the same node set at two {component.lower()}s is rejected as a repeat", loc(v.fi, n))
    if n_found == 0:
        res.ok("K-UNIQ", v.fi.short, "no uniqueness guard", component, loc(v.fi, v.fi.node))

"""Rules for the measure / connectivity clients shared by C01, C08 (degree.py, cc.py, visits.py)."""
from __future__ import annotations

from .. import cmpshape as M
from .. import forward as F
from ..effects import Effects, check_pure

DEGREE = ["degree.degree", "degree.degree_sequence", "degree.degree_distribution"]
CC = [
    "cc.connected_components", "cc.node_connected_component", "cc.num_connected_components", "cc.largest_component",
    "cc.largest_component_size", "cc.isolated_nodes", "cc.is_isolated", "cc.is_connected",
]
VISITS = ["visits._bfs", "visits._dfs"]


def check_filter_clients(ctx, res, funcs, pure_param="hg"):
    eff = Effects(ctx)
    for d in funcs:
        if d not in VISITS:  # internal helpers: the public wrappers validate
            with res.guard("M.check_exclusionctx, res, d"):
                M.check_exclusion(ctx, res, d)
        with res.guard("M.check_none_testsctx, res, d"):
            M.check_none_tests(ctx, res, d)
        with res.guard("F.check_usectx, res, d, order, size"):
            F.check_use(ctx, res, d, ("order", "size"))
        with res.guard("check_purectx, eff, res, d, rootspure_param,"):
            check_pure(ctx, eff, res, d, roots=(pure_param,))
    with res.guard("F.check_forwardingctx, res, funcs"):
        F.check_forwarding(ctx, res, funcs)

"""Shared body of the container properties C01-C04."""
from __future__ import annotations

from .. import cmpshape as M
from .. import forward as F
from .. import rules_container as RC
from .. import tables as T
from ..effects import Effects, check_deepcopy, check_pure, check_shared_literals
from ..report import Result

# raw table setters / bulk restore: they replace a table wholesale and are outside the properties' quantifier
RAW_SETTERS = {"set_adj_dict", "set_edge_list", "set_existing_layers", "populate_from_dict", "__init__"}
FILTER_METHODS = ("get_edges", "num_edges", "get_weights", "get_incident_edges", "get_neighbors", "get_source_edges", "get_target_edges")

MUTATORS_ATOMIC = (
    "add_node", "add_nodes", "add_edge", "add_edges", "remove_edge", "remove_edges", "remove_node", "remove_nodes",
    "set_weight", "set_node_metadata", "set_edge_metadata", "set_incidence_metadata", "set_hypergraph_metadata",
    "set_attr_to_node_metadata", "set_attr_to_edge_metadata", "set_attr_to_hypergraph_metadata",
    "remove_attr_from_node_metadata", "remove_attr_from_edge_metadata",
)

EXPECTED_MUTATORS = {
    "add_node", "add_nodes", "add_edge", "add_edges", "add_empty_edge", "remove_edge", "remove_edges", "remove_node",
    "remove_nodes", "set_weight", "set_node_metadata", "set_edge_metadata", "set_incidence_metadata",
    "set_hypergraph_metadata", "set_attr_to_node_metadata", "set_attr_to_edge_metadata",
    "set_attr_to_hypergraph_metadata", "remove_attr_from_node_metadata", "remove_attr_from_edge_metadata", "clear",
    "set_dataset_metadata", "set_layer_metadata",
}

KIND_RULES = {
    "K-KEY": "every access to a declared table uses a key of the table's key kind (canonical key / edge id / node)",
    "K-VAL": "every value stored in a declared table has the table's value kind",
    "K-ARG": "arguments of resolved calls have the parameter's declared kind (edge id is not a weight, composite key is not a node tuple ...)",
    "K-SIZE": "comparisons between hyperedge size expressions and order/size filters are unit-consistent (len(e)-1 vs order, len(e) vs size)",
    "K-LEN": "len() is never applied to a composite (time, nodes) / (nodes, layer) key",
    "K-POS": "lists are indexed by positions, never by edge ids (ids are positions only until the first removal)",
    "K-MEM": "membership tests / set updates use elements of the container's element kind",
    "C-SIG": "every resolved call binds against the callee's signature",
    "K-KEY-LOCAL": "local dicts are subscripted with keys of their inferred key kind",
}
PATH_RULES = {
    "P-REINSERT": "remove_node(keep_edges=True) re-inserts the shrunken hyperedge through add_edge whether or not its key exists already (add_edge merges the weight)",
    "P-FRESH": "a record-creating store is dominated by `key not in _edge_list`; all id-keyed tables are written on that path; metadata of an existing record is only overwritten when supplied",
    "P-ID": "new ids come from the monotone counter, which is advanced by a positive constant on the same path",
    "P-ADJ1": "incidence entries are appended only on the fresh path, in a loop over the key's nodes, with the edge id",
    "P-ACCUM": "weights of existing records are only changed by `+= weight` under the weighted flag",
    "P-IDMONO": "outside constructors / loaders / clear the edge-id counter is only ever advanced (an id is never handed out twice while its first holder is alive)",
    "P-EMETA": "the metadata argument of add_edge reaches _edge_metadata on the path where the hyperedge already exists as well (re-insertion replaces the metadata)",
    "P-DEL": "deleting a record deletes it from every id-keyed table and from the incidence lists of its nodes on every path",
    "P-DELJOINT": "a method that deletes a record from an id-keyed table itself (not through remove_edge) deletes it from every id-keyed table, the key table and the incidence lists on that path",
    "P-BATCH": "add_edges calls add_edge for every item of the batch, also for records that already exist",
    "P-NODE": "add_node initialises all node tables under the `is new` guard and never overwrites non-empty metadata; remove_node deletes the node from all node tables and goes through remove_edge",
    "P-CLEAR": "clear() empties every table of the class",
    "P-ATOMIC": "no table / flag write precedes an explicit raise in the same method",
    "P-SHRINK": "weight / metadata of a record are not read after the record was removed (shrinking remove_node)",
    "P-LOOPVAR": "no loop variable (key component) is used after its loop in remove_node",
    "Q-ISO": "isolated_nodes / is_isolated decide isolation from the neighbour set (directly or by delegation), never from incidence lists or degrees",
    "P-NEIGH": "every return of get_neighbors passes through removal of the queried node",
    "E-LIVEITER": "no loop iterates an internal table (or a list stored in it) while its body writes that table, directly or via self.<method>()",
    "E-PURE": "query methods (everything that is not a declared mutator) never modify self, directly or through callees / lent references",
    "E-SHARED": "no single mutable object becomes the value of several table entries (dict.fromkeys(keys, {}), [{}] * n)",
    "E-FRESHCOPY": "copy() is copy.deepcopy(self)",
    "B-SCANBREAK": "a scan that collects the records matching a filter stops early only on the sort key, never on the order/size filter",
    "M-UPTO": "size filters are `==` on the exact branch and `<=` on the up_to branch",
    "M-EXCL": "the order/size exclusion guard raises exactly when both are given",
    "M-NONE": "order / size are tested with `is None`, never by truthiness (0 is a legitimate order)",
    "F-USE": "a received order / size / up_to parameter is used",
    "F-FWD": "an order/size filter is forwarded to the callee that applies it, under the right name and unit",
}


def check_result_kinds(ctx, res: Result, cls: str):
    """K-RET: the kind the interpreter infers for what a query returns (joined over its return paths) fits one of the
    kinds its docstring promises.  A size where an order is promised, an edge id where a weight is, a node where a
    hyperedge is, the opposite role - are reported; a kind the interpreter cannot determine is `unknown`."""
    from ..kinds import OK, Const, Mismatch, Union, _Top, fits, only_none, strip_none
    from ..model import loc

    res.rules["K-RET"] = "a query returns a value of its documented kind (size vs order, weight vs id, hyperedge vs node, role, time, layer)"
    want = T.query_results(cls)
    for name, expected in want.items():
        if name not in ctx.methods(cls):
            continue
        fi = ctx.methods(cls)[name]
        got = ctx.interp.analyse_entry(fi)
        members = list(got.members) if isinstance(got, Union) else [got]
        worst, why = "ok", ""
        for m in members:
            if only_none(m):
                continue  # a path without a result (rejected call); not the business of this rule
            if isinstance(m, Const) and isinstance(m.value, bool):
                from ..kinds import BOOL

                m = BOOL
            verdicts = [fits(m, e) for e in expected]
            if any(x is OK for x in verdicts):
                continue
            if all(isinstance(x, Mismatch) for x in verdicts) and not isinstance(strip_none(m), _Top) and "?" not in repr(m):
                worst, why = "violation", f"returns {m!r}; documented result: {' or '.join(repr(e) for e in expected)} ({verdicts[0].reason})"
                break
            if worst == "ok":
                worst, why = "unknown", f"result kind {m!r} not decided against {' or '.join(repr(e) for e in expected)}"
        res.add("K-RET", fi.short, f"return kind {got!r}"[:160], "result", worst, why, loc(fi, fi.node))


def run_container(ctx, prop: str, cls: str) -> Result:
    res = Result(prop)
    res.rules.update(KIND_RULES)
    res.rules.update(PATH_RULES)
    for c, what, attrs in getattr(ctx, "table_notes", []):
        if c == cls:
            res.unknown("T-DECL", cls, ", ".join(attrs), what, "the table declarations of hgxverif/tables.py and the class disagree: " + ("these attributes are created in __init__ but have no declared kind, so the pairing rules do not cover them" if what == "undeclared-table" else "these declared tables are not assigned anywhere in the class"))
    ctx.add_sites(res, ctx.sites(rules=KIND_RULES.keys(), classes=[cls]))
    # module-level helpers of the class's file (canonicalisers / size helpers)
    ctx.add_sites(res, ctx.sites(rules=KIND_RULES.keys(), files=[T.CORE_FILES[cls]]))
    with res.guard("RC.check_add_edgectx, res, cls"):
        RC.check_add_edge(ctx, res, cls)
    with res.guard("RC.check_remove_edgectx, res, cls"):
        RC.check_remove_edge(ctx, res, cls)
    with res.guard("RC.check_add_nodectx, res, cls"):
        RC.check_add_node(ctx, res, cls)
    with res.guard("RC.check_remove_nodectx, res, cls"):
        RC.check_remove_node(ctx, res, cls)
    with res.guard("RC.check_clearctx, res, cls, exempt_incidences_metadata, _empty_edges"):
        RC.check_clear(ctx, res, cls, exempt=("_incidences_metadata", "_empty_edges"))
    with res.guard("RC.check_atomicctx, res, cls, MUTATORS_ATOMIC"):
        RC.check_atomic(ctx, res, cls, MUTATORS_ATOMIC)
    with res.guard("RC.check_neighborsctx, res, cls"):
        RC.check_neighbors(ctx, res, cls)
    with res.guard("RC.check_memo_keys"):
        RC.check_memo_keys(ctx, res, cls)
    with res.guard("RC.check_canon_key"):
        RC.check_canon_key(ctx, res, cls)
    with res.guard("RC.check_merge_key"):
        RC.check_merge_key(ctx, res, cls)
    with res.guard("RC.check_record_deletion_joint(ctx, res, cls)"):
        RC.check_record_deletion_joint(ctx, res, cls)
    with res.guard("RC.check_id_monotone(ctx, res, cls)"):
        RC.check_id_monotone(ctx, res, cls)
    with res.guard("RC.check_shallow_checkpoint(ctx, res, cls)"):
        RC.check_shallow_checkpoint(ctx, res, cls)
    with res.guard("RC.check_keyed_memo_invalidation(ctx, res, cls)"):
        RC.check_keyed_memo_invalidation(ctx, res, cls)
    with res.guard("RC.check_record_counters(ctx, res, cls)"):
        RC.check_record_counters(ctx, res, cls)
    with res.guard("RC.check_weight_accumulation_guarded(ctx, res, cls)"):
        RC.check_weight_accumulation_guarded(ctx, res, cls)
    with res.guard("RC.check_batch_insert(ctx, res, cls)"):
        RC.check_batch_insert(ctx, res, cls)
    with res.guard("RC.check_isolation(ctx, res, cls)"):
        RC.check_isolation(ctx, res, cls)
    with res.guard("RC.check_record_creation_guardedctx, res, cls"):
        RC.check_record_creation_guarded(ctx, res, cls)
    with res.guard("RC.check_live_iterationctx, res, cls"):
        RC.check_live_iteration(ctx, res, cls)
    # ---- K-RET: every query hands back a value of its documented kind (units of measure for results)
    with res.guard("K-RET: result kinds of the queries"):
        check_result_kinds(ctx, res, cls)
    # ---- queries are read-only; mutators do not share one mutable object between entries; copy is deep
    eff = Effects(ctx)
    mutators, queries = [], []
    for name, fi in ctx.methods(cls).items():
        if name in RAW_SETTERS:
            continue
        if name in EXPECTED_MUTATORS:
            mutators.append(name)
        elif not name.startswith("_") or (name.startswith("__") and name.endswith("__")):
            # private helpers are judged through the public methods that call them (check_pure follows callees)
            queries.append(name)
    for name in sorted(queries):
        with res.guard("check_purectx, eff, res, fcls.name, rootsself,"):
            check_pure(ctx, eff, res, f"{cls}.{name}", roots=("self",))
    for name in sorted(mutators):
        with res.guard("check_shared_literalsctx, res, fcls.name"):
            check_shared_literals(ctx, res, f"{cls}.{name}")
    if "copy" in ctx.methods(cls):
        with res.guard("check_deepcopyctx, res, fcls.copy"):
            check_deepcopy(ctx, res, f"{cls}.copy")
    # ---- mutators: an explicitly supplied empty metadata dict / zero weight / time 0 is a value, not "omitted"
    # (the batch methods take a LIST / DICT of per-item metadata: an empty one carries nothing, its truthiness is harmless)
    for name in ("add_edge", "add_node", "set_edge_metadata", "set_node_metadata", "set_weight"):
        if name in ctx.methods(cls):
            with res.guard(f"M.check_none_tests({cls}.{name}, metadata / weight / time)"):
                M.check_none_tests(ctx, res, f"{cls}.{name}", params=("metadata", "weight", "time"))
    # ---- private helpers that receive the order / size filter (`_edges_by_role(adj, node, order, size)`): the filter value 0 is
    #      legitimate there as well (`order = order or ...` drops the order-0 filter)
    for name, mfi in sorted(ctx.methods(cls).items()):
        if name.startswith("_") and not name.startswith("__") and name not in FILTER_METHODS and {a.arg for a in mfi.params} & {"order", "size"}:
            with res.guard(f"M.check_none_tests({cls}.{name})"):
                M.check_none_tests(ctx, res, f"{cls}.{name}", params=("order", "size"))
    # ---- filtered queries: comparison shapes, exclusion guard, None tests, forwarding
    for name in FILTER_METHODS:
        if name in ctx.methods(cls):
            d = f"{cls}.{name}"
            with res.guard("M.check_uptoctx, res, d"):
                M.check_upto(ctx, res, d)
            with res.guard("M.check_exclusionctx, res, d"):
                M.check_exclusion(ctx, res, d)
            with res.guard("M.check_none_testsctx, res, d"):
                M.check_none_tests(ctx, res, d)
            with res.guard("F.check_usectx, res, d, order, size, up_to"):
                F.check_use(ctx, res, d, ("order", "size", "up_to"))
            with res.guard("B-SCANBREAK"):
                from ..lints import check_scan_break

                check_scan_break(ctx, res, d)
    wrappers = [f"{cls}.{n}" for n in ctx.methods(cls) if n not in RAW_SETTERS]
    with res.guard("F.check_forwardingctx, res, wrappers"):
        F.check_forwarding(ctx, res, wrappers)
    res.assumptions += [
        "A1: node labels are not tuples (isinstance(<node>, tuple) folds to False in the canonicalisers)",
        "table kinds of hgxverif/tables.py (frozen from __init__/add_edge/add_node; cross-checked against inference on every run)",
        "implicit exceptions (e.g. TypeError from sorting incomparable labels) are outside P-ATOMIC; only explicit `raise` is tracked",
        "exit 0 means the structural obligations hold, not that the behavioural equivalence with the abstract model was proved",
    ]
    return res

"""Shared body of the container properties C01-C04."""
from __future__ import annotations

from .. import rules_container as RC
from .. import tables as T
from ..report import Result

MUTATORS_ATOMIC = (
    "add_node", "add_nodes", "add_edge", "add_edges", "remove_edge", "remove_edges", "remove_node", "remove_nodes",
    "set_weight", "set_node_metadata", "set_edge_metadata", "set_incidence_metadata", "set_hypergraph_metadata",
    "set_attr_to_node_metadata", "set_attr_to_edge_metadata", "set_attr_to_hypergraph_metadata",
    "remove_attr_from_node_metadata", "remove_attr_from_edge_metadata",
)

KIND_RULES = {
    "K-KEY": "every access to a declared table uses a key of the table's key kind (canonical key / edge id / node)",
    "K-VAL": "every value stored in a declared table has the table's value kind",
    "K-ARG": "arguments of resolved calls have the parameter's declared kind (edge id is not a weight, composite key is not a node tuple ...)",
    "K-SIZE": "comparisons between hyperedge size expressions and order/size filters are unit-consistent (len(e)-1 vs order, len(e) vs size)",
    "K-LEN": "len() is never applied to a composite (time, nodes) / (nodes, layer) key",
    "K-MEM": "membership tests / set updates use elements of the container's element kind",
    "C-SIG": "every resolved call binds against the callee's signature",
}
PATH_RULES = {
    "P-FRESH": "a record-creating store is dominated by `key not in _edge_list`; all id-keyed tables are written on that path; metadata of an existing record is only overwritten when supplied",
    "P-ID": "new ids come from the monotone counter, which is advanced by a positive constant on the same path",
    "P-ADJ1": "incidence entries are appended only on the fresh path, in a loop over the key's nodes, with the edge id",
    "P-ACCUM": "weights of existing records are only changed by `+= weight` under the weighted flag",
    "P-DEL": "deleting a record deletes it from every id-keyed table and from the incidence lists of its nodes on every path",
    "P-NODE": "add_node initialises all node tables under the `is new` guard and never overwrites non-empty metadata; remove_node deletes the node from all node tables and goes through remove_edge",
    "P-CLEAR": "clear() empties every table of the class",
    "P-ATOMIC": "no table / flag write precedes an explicit raise in the same method",
    "P-SHRINK": "weight / metadata of a record are not read after the record was removed (shrinking remove_node)",
    "P-LOOPVAR": "no loop variable (key component) is used after its loop in remove_node",
    "P-NEIGH": "every return of get_neighbors passes through removal of the queried node",
}


def run_container(ctx, prop: str, cls: str) -> Result:
    res = Result(prop)
    res.rules.update(KIND_RULES)
    res.rules.update(PATH_RULES)
    ctx.add_sites(res, ctx.sites(rules=KIND_RULES.keys(), classes=[cls]))
    # module-level helpers of the class's file (canonicalisers / size helpers)
    ctx.add_sites(res, ctx.sites(rules=KIND_RULES.keys(), files=[T.CORE_FILES[cls]]))
    RC.check_add_edge(ctx, res, cls)
    RC.check_remove_edge(ctx, res, cls)
    RC.check_add_node(ctx, res, cls)
    RC.check_remove_node(ctx, res, cls)
    RC.check_clear(ctx, res, cls, exempt=("_incidences_metadata", "_empty_edges"))
    RC.check_atomic(ctx, res, cls, MUTATORS_ATOMIC)
    RC.check_neighbors(ctx, res, cls)
    res.assumptions += [
        "A1: node labels are not tuples (isinstance(<node>, tuple) folds to False in the canonicalisers)",
        "table kinds of hgxverif/tables.py (frozen from __init__/add_edge/add_node; cross-checked against inference on every run)",
        "implicit exceptions (e.g. TypeError from sorting incomparable labels) are outside P-ATOMIC; only explicit `raise` is tracked",
        "exit 0 means the structural obligations hold, not that the behavioural equivalence with the abstract model was proved",
    ]
    return res

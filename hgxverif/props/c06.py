import ast

from .. import schema as S
from ..effects import Effects, check_pure
from ..model import loc
from ..report import Result
from ._containers import KIND_RULES

LEVEL_TEXT = (
    "Structural necessary conditions of C06, decided statically: saving is effect-free on the saved object (including through "
    "the metadata dicts lent by get_edges(metadata=True)); writer and reader of the text format agree on type dispatch, record keys "
    "and reserved keys per container type, and the reserved keys take the live values; the binary snapshot exposes and restores "
    "every table under the same key; the readers' constructor / method calls bind and carry the right kinds.  Decides the "
    "structure, not round-trip equality itself."
)


def _check_hif_incidence_keys(ctx, res):
    import ast

    from ..kinds import Lst, Seq, St, Union, strip_none
    from ..model import loc, norm, walk_no_nested

    # does the container canonicalise the key itself?  (then any spelling of the hyperedge is fine)
    setter = ctx.require("Hypergraph.set_incidence_metadata")
    sv = ctx.view(setter)
    pe = setter.params[1].arg if len(setter.params) > 1 else "edge"
    raw_store = any(
        isinstance(n, ast.Assign) and isinstance(n.targets[0], ast.Subscript) and any(isinstance(x, ast.Name) and x.id == pe for x in ast.walk(n.targets[0].slice)) and not any(isinstance(x, ast.Name) and x.id == pe and isinstance(x.ctx, ast.Store) for x in ast.walk(setter.node))
        for n in walk_no_nested(setter.node)
    )
    if not raw_store:
        res.ok("S-HIF", setter.short, f"def {setter.name}", "container-canonicalises", loc(setter, setter.node))
        return
    n = 0
    for fi in S.closure(ctx, ctx.require("hif.read_hif")):
        v = ctx.view(fi)
        for c in walk_no_nested(fi.node):
            if isinstance(c, ast.Call) and isinstance(c.func, ast.Attribute) and c.func.attr == "set_incidence_metadata" and c.args:
                n += 1
                k = strip_none(v.kind(c.args[0]))
                e = v.inline(c.args[0])
                sorted_expr = isinstance(e, ast.Call) and norm(e.func) == "tuple" and e.args and isinstance(e.args[0], ast.Call) and norm(e.args[0].func) == "sorted"
                if (isinstance(k, Seq) and k.canon) or sorted_expr:
                    st = "ok"
                elif isinstance(k, Seq) and not k.canon:
                    st = "violation"
                else:
                    st = "unknown"
                res.add("S-HIF", fi.short, norm(c), "canonical-edge", st, "" if st == "ok" else "the incidence record is filed under the node tuple in file order: Hypergraph.set_incidence_metadata stores the key as given, so get_incidence_metadata(<edge from get_edges()>, node) does not find it", loc(fi, c))
    if n == 0:
        res.unknown("S-HIF", "hif.read_hif", "set_incidence_metadata", "canonical-edge", "no incidence record is stored by the reader (call not found)", "")


def run(ctx):
    res = Result("C06")
    res.rules.update({k: KIND_RULES[k] for k in ("C-SIG", "K-ARG", "K-KEY")})
    res.rules.update({
        "E-PURE": "save_hypergraph / _save_pickle / write_hif never modify the object being saved",
        "S-DISPATCH": "save, json-load and pickle-load handle exactly the exported container classes and construct the same type",
        "S-JSONKEYS": "reserved metadata keys written per type == keys read per type; record keys and discriminators agree",
        "S-RESERVED": "reserved keys are written from the live weight/time/layer and override user metadata of the same name",
        "S-LOADARGS": "values handed to add_node/add_edge by the json reader come from the record field of the same meaning",
        "S-PICKLE": "every table is exposed and restored under one and the same key; the snapshot is tagged with its class",
        "S-HIF": "HIF reader: incidence attribute records are filed under the canonical (sorted) node tuple, the key get_edges() hands out (Hypergraph.set_incidence_metadata stores its edge argument as given)",
        "S-HGR": "hMETIS reader: weights and hyperedges grow together; a weighted hyperedge skips the weight entry",
    })
    files = ["hypergraphx/readwrite/save.py", "hypergraphx/readwrite/load.py", "hypergraphx/readwrite/hif.py"]
    ctx.add_sites(res, ctx.sites(rules=("C-SIG", "K-ARG", "K-KEY"), files=files))
    eff = Effects(ctx)
    with res.guard("check_purectx, eff, res, save.save_hypergraph, rootshypergraph,"):
        check_pure(ctx, eff, res, "save.save_hypergraph", roots=("hypergraph",))
    # what the loader parsed is what it builds from: a helper of load.py that is called for its side effects only (a statement call:
    # diagnostics, validation, statistics) and is handed the parsed record lists leaves those records as they are - a `members.sort()`
    # "for display" on the [source, target] pair of a directed record swaps the two sides before add_edge sees them
    with res.guard("E-PURE of the loader's statement-call helpers"):
        res.rules["E-PURE"] = res.rules.get("E-PURE", "") + "; helpers that load_hypergraph calls as statements leave the parsed records unchanged"
        lf = ctx.require("load.load_hypergraph")
        units = [lf] + [g for g in ctx.prog.functions.values() if g.module is lf.module and g is not lf and any(c_ is g for n_ in ast.walk(lf.node) if isinstance(n_, ast.Call) for c_ in ctx.callees(lf, n_))]
        n_st = 0
        for u in units:
            for st in [x for x in ast.walk(u.node) if isinstance(x, ast.Expr) and isinstance(x.value, ast.Call) and isinstance(x.value.func, ast.Name)]:
                for callee in ctx.callees(u, st.value):
                    if callee.module is not lf.module:
                        continue
                    pn = [a.arg for a in callee.params]
                    roots = tuple(pn[i] for i, a in enumerate(st.value.args) if i < len(pn) and isinstance(a, ast.Name) and any(isinstance(d, ast.Assign) and any(isinstance(t, ast.Name) and t.id == a.id for t in d.targets) and isinstance(d.value, (ast.List, ast.ListComp)) for d in ast.walk(u.node)))
                    if roots:
                        n_st += 1
                        check_pure(ctx, eff, res, callee, roots=roots)
        if n_st == 0:
            res.ok("E-PURE", lf.short, "no statement-call helper is handed the parsed records", "load-helpers", loc(lf, lf.node))
    with res.guard("check_purectx, eff, res, save._save_pickle, rootsobj,"):
        check_pure(ctx, eff, res, "save._save_pickle", roots=("obj",))
    with res.guard("check_purectx, eff, res, hif.write_hif, rootsH,"):
        check_pure(ctx, eff, res, "hif.write_hif", roots=("H",))
    for cls in ("Hypergraph", "DirectedHypergraph", "TemporalHypergraph", "MultiplexHypergraph"):
        with res.guard("check_purectx, eff, res, fcls.expose_data_structures, rootsself,"):
            check_pure(ctx, eff, res, f"{cls}.expose_data_structures", roots=("self",))
    with res.guard("S.check_json_schemactx, res"):
        S.check_json_schema(ctx, res)
    with res.guard("S.check_reserved_winctx, res"):
        S.check_reserved_win(ctx, res)
    with res.guard("S.check_load_argsctx, res"):
        S.check_load_args(ctx, res)
    with res.guard("S.check_picklectx, res"):
        S.check_pickle(ctx, res)
    with res.guard("S.check_hgrctx, res"):
        S.check_hgr(ctx, res)
    with res.guard("S-HIF: incidence records are filed under the canonical hyperedge"):
        _check_hif_incidence_keys(ctx, res)
    res.assumptions += [
        "JSON representability of labels / metadata and the tokenisation of .hgr lines are not decided",
        "the HIF reader is checked for call conformance only (see the known finding on directed HIF documents)",
    ]
    # ---- the writer records `is_weighted()` next to the header's own "weighted" entry and the reader believes the header: the two
    #      agree as long as no container switches its weightedness flag on a call that it then rejects (P-ATOMIC, shared with C01-C04)
    from .. import rules_container as RC
    from ._containers import PATH_RULES

    res.rules["P-ATOMIC"] = PATH_RULES.get("P-ATOMIC", "no table / flag is modified before an explicit rejection of the call")
    for cls_ in ("Hypergraph", "DirectedHypergraph", "TemporalHypergraph", "MultiplexHypergraph"):
        with res.guard(f"RC.check_atomic({cls_}, add_edge / add_edges)"):
            RC.check_atomic(ctx, res, cls_, ("add_edge", "add_edges"))
    with res.guard("general lint pack over the property's files"):
        from ..lints import check_pack

        check_pack(ctx, res, "C06")
    return res

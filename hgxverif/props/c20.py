import ast

from .. import forward as F
from ..kinds import Atom, Const
from ..model import AnalysisError, loc, norm, walk_no_nested
from ..report import Result
from ._containers import KIND_RULES

LEVEL_TEXT = (
    "Structural necessary conditions of C20, decided statically: each s-centrality delegates to the matching networkx functional "
    "on the matching projection (line graph with s forwarded / bipartite projection), translates result keys through the id table "
    "returned by that very projection call, applies the vertex-id test only to vertex ids (never to node labels), the averaged "
    "versions divide by len() of the snapshot collection they iterate, and the sub-hypergraph centrality takes the adjacency of "
    "the given hypergraph.  Decides the structure, not eigen-equations, positivity or normalisation."
)

# function -> (projection, networkx functional, takes s, node version?)      [frozen from the docstrings]
TABLE = {
    "s_betweenness": ("line_graph", "betweenness_centrality", True, False),
    "s_closeness": ("line_graph", "closeness_centrality", True, False),
    "s_betweenness_averaged": ("line_graph", "betweenness_centrality", True, False),
    "s_closeness_averaged": ("line_graph", "closeness_centrality", True, False),
    "s_betweenness_nodes": ("bipartite_projection", "betweenness_centrality", False, True),
    "s_closeness_nodes": ("bipartite_projection", "closeness_centrality", False, True),
    "s_betweenness_nodes_averaged": ("bipartite_projection", "betweenness_centrality", False, True),
    "s_closenness_nodes_averaged": ("bipartite_projection", "closeness_centrality", False, True),
}


def _closure(ctx, v, depth=2):
    """[(FunctionInfo, binding)]: the function and the module-level helpers it (transitively, bound `depth`) calls;
    `binding` maps a helper's parameter names to the expression of the TOP function they are bound to (plain names and
    attribute references only)"""
    from ..model import FunctionInfo

    out = [(v.fi, {a.arg: ast.Name(id=a.arg, ctx=ast.Load()) for a in v.fi.params})]
    seen = {v.fi.qualname}
    frontier = list(out)
    for _ in range(depth):
        nxt = []
        for fi, bind in frontier:
            # functions handed around as values (`_projection_scores(..., keep=_is_node_vertex)`) belong to the closure too
            for n in ast.walk(fi.node):
                if isinstance(n, ast.Name) and isinstance(n.ctx, ast.Load):
                    r_ = ctx.prog.resolve_name(fi.module, n.id)
                    if isinstance(r_, FunctionInfo) and r_.module is fi.module and r_.cls is None and r_.qualname not in seen:
                        seen.add(r_.qualname)
                        nxt.append((r_, {}))
            for n in ast.walk(fi.node):
                if not isinstance(n, ast.Call):
                    continue
                for callee in ctx.callees(fi, n):
                    if callee.qualname in seen or callee.module is not fi.module or callee.cls is not None:
                        continue
                    seen.add(callee.qualname)
                    names = [p.arg for p in callee.params]
                    b2 = {}
                    for i, a in enumerate(n.args):
                        if i < len(names):
                            b2[names[i]] = a
                    for kw in n.keywords:
                        if kw.arg:
                            b2[kw.arg] = kw.value
                    # express in terms of the top function
                    b3 = {}
                    for k, e in b2.items():
                        if isinstance(e, ast.Name) and e.id in bind:
                            b3[k] = bind[e.id]
                        elif isinstance(e, (ast.Attribute, ast.Constant)):
                            b3[k] = e
                    nxt.append((callee, b3))
        out += nxt
        frontier = nxt
    return out


def _closed(ctx, bodies) -> bool:
    """every plain-name call in the bodies is a builtin, a parameter (a callable handed in) or a function of the closure"""
    import builtins

    fns = {fi.name for fi, _ in bodies}
    for fi, _ in bodies:
        params = {a.arg for a in fi.params}
        for n in ast.walk(fi.node):
            if isinstance(n, ast.Call) and isinstance(n.func, ast.Name):
                if n.func.id in fns or n.func.id in params or hasattr(builtins, n.func.id) or n.func.id in ("line_graph", "bipartite_projection"):
                    continue
                return False
    return True


def run(ctx):
    res = Result("C20")
    res.rules.update({k: KIND_RULES[k] for k in ("C-SIG", "K-ARG")})
    res.rules.update({
        "K-VID": "vertex-id tests ('E' in k) apply to vertex ids only; result keys are translated through the id table of the same projection call",
        "K-KEY-LOCAL": "id tables are subscripted with ids",
        "D-DELEG": "each centrality delegates to the advertised networkx functional on the advertised projection",
        "F-USE": "s is forwarded to line_graph",
        "D-AVG": "averaged versions divide by len() of the snapshot collection they iterate",
        "D-SUB": "sub-hypergraph centrality uses the adjacency matrix of the given hypergraph",
    })
    files = ["hypergraphx/measures/s_centralities.py", "hypergraphx/measures/sub_hypergraph_centrality.py"]
    ctx.add_sites(res, ctx.sites(rules=("C-SIG", "K-ARG", "K-VID", "K-KEY-LOCAL"), files=files))
    # ---- "every node receives exactly one value": the node centralities are read off the node vertices of the bipartite
    #      projection, which therefore has to hold a vertex for every node of the hypergraph (shared with C10)
    with res.guard("vertex per node of the bipartite projection"):
        from ._vid import check_all_nodes_are_vertices

        check_all_nodes_are_vertices(ctx, res)
    with res.guard("K-VID label-free ids of the bipartite projection"):
        from ._vid import check_label_free_ids

        res.rules.setdefault("K-VID", "vertex ids of the projections are counters behind a kind prefix, tied to the objects only through the id tables")
        check_label_free_ids(ctx, res)
    with res.guard("G-STALE (shared with C10)"):
        from ..lints import check_stale_in_loop

        for d_ in ("projections.line_graph", "projections.bipartite_projection"):
            check_stale_in_loop(ctx, res, d_)
    with res.guard("L-PREFILTER (shared with C10)"):
        from ._vid import check_line_graph_prefilter

        res.rules["L-PREFILTER"] = "a size pre-filter in front of the pair comparison of the s-line graph keeps every hyperedge with at least s nodes"
        check_line_graph_prefilter(ctx, res)
    for name, (proj, functional, takes_s, node_version) in TABLE.items():
        d = f"s_centralities.{name}"
        with res.guard(f"delegation of {name}"):
            v = ctx.view(d)
            f = v.fi.short
            bodies = _closure(ctx, v)
            closed = _closed(ctx, bodies)
            calls = [(fi, n) for fi, _ in bodies for n in ast.walk(fi.node) if isinstance(n, ast.Call)]
            pcalls = [(fi, c) for fi, c in calls if isinstance(c.func, ast.Name) and c.func.id in ("line_graph", "bipartite_projection")]
            wrong = [c for _, c in pcalls if c.func.id != proj]
            if not pcalls:
                res.unknown("D-DELEG", f, proj + "(...)", "projection", "no direct projection call (the projection is passed around as a value)", loc(v.fi, v.fi.node))
            else:
                right = [c for _, c in pcalls if c.func.id == proj]
                if wrong and right:
                    # both projections are reachable: they sit in helpers that a shared higher-order helper is handed as values
                    # (`_projected_scores(partial(_s_line_graph, s), ...)` / `_projected_scores(_bipartite, ...)`)
                    res.unknown("D-DELEG", f, norm(right[0]), "projection", "both projections are reachable through a shared helper that receives the projection as a value; which one this function selects was not decided", loc(v.fi, v.fi.node))
                else:
                    res.check(not wrong, "D-DELEG", f, norm(pcalls[0][1]), "projection", f"{name} is computed on {wrong[0].func.id if wrong else '?'} instead of {proj}", loc(v.fi, v.fi.node))
            # the networkx functional: called directly, or referenced and handed to a helper
            refs = [n for fi, _ in bodies for n in ast.walk(fi.node) if isinstance(n, ast.Attribute) and n.attr.endswith("_centrality")]
            own_refs = [n for n in ast.walk(v.fi.node) if isinstance(n, ast.Attribute) and n.attr.endswith("_centrality")]
            # references inside shared helpers are judged only when the helper is not shared (it names one functional)
            judged = own_refs or refs
            bad = [n for n in judged if n.attr != functional]
            shared = not own_refs and len({n.attr for n in refs}) > 1
            if not judged:
                res.unknown("D-DELEG", f, functional, "functional", "no reference to a networkx centrality found", loc(v.fi, v.fi.node))
            elif shared:
                # one helper dispatches between several functionals: the selector this function hands over decides
                keys = {n.attr: n.attr.split("_")[0] for n in refs}  # betweenness_centrality -> "betweenness"
                consts = {c.value for c in ast.walk(v.fi.node) if isinstance(c, ast.Constant) and isinstance(c.value, str)} - {ast.get_docstring(v.fi.node) or ""}
                mine = keys.get(functional)
                others = {k for a_, k in keys.items() if a_ != functional}
                if mine in consts and not (others & consts):
                    res.ok("D-DELEG", f, f'"{mine}"', "functional", loc(v.fi, v.fi.node))
                elif (others & consts) and mine not in consts:
                    res.violation("D-DELEG", f, f'"{sorted(others & consts)[0]}"', "functional", f"{name} does not delegate to networkx.{functional}", loc(v.fi, v.fi.node))
                else:
                    res.unknown("D-DELEG", f, functional, "functional", "the centrality is chosen inside a shared helper; which one this function selects was not recognised", loc(v.fi, v.fi.node))
            else:
                res.check(not bad, "D-DELEG", f, norm((bad or judged)[0]), "functional", f"{name} does not delegate to networkx.{functional}", loc(v.fi, v.fi.node))
            if takes_s:
                with res.guard("F-USE of s"):
                    F.check_use(ctx, res, d, ("s",))
                lg = [(fi, bind, c) for fi, bind in bodies for c in ast.walk(fi.node) if isinstance(c, ast.Call) and isinstance(c.func, ast.Name) and c.func.id == "line_graph"]
                if not lg:
                    res.unknown("F-USE", f, "line_graph(H, s=s)", "s-forwarded", "no line_graph call found", loc(v.fi, v.fi.node))
                for fi, bind, c in lg:
                    sarg = next((k.value for k in c.keywords if k.arg == "s"), c.args[2] if len(c.args) >= 3 else None)
                    if sarg is None or isinstance(sarg, ast.Constant):
                        st = "violation"
                    elif isinstance(sarg, ast.Name) and sarg.id in bind and isinstance(bind[sarg.id], ast.Name) and bind[sarg.id].id == "s":
                        st = "ok"
                    elif isinstance(sarg, ast.Name) and fi is not v.fi and sarg.id not in bind and sarg.id in {a.arg for a in fi.params}:
                        st = "unknown"  # a helper parameter whose binding was not followed
                    elif isinstance(sarg, ast.Name) and sarg.id in bind:
                        st = "violation"  # bound to something else than the caller's s
                    else:
                        st = "unknown"
                    res.add("F-USE", f, norm(c), "s-forwarded", st, "" if st == "ok" else "the line graph is built without the caller's s (the centrality is always that of the 1-line graph)", loc(fi, c))
            # result keys go through the id table of the same projection call
            for fi, _ in bodies:
                b = fi.node
                params = {a.arg for a in fi.params}
                unpack = [n for n in ast.walk(b) if isinstance(n, ast.Assign) and isinstance(n.value, ast.Call) and isinstance(n.value.func, ast.Name) and n.value.func.id in ("line_graph", "bipartite_projection") and isinstance(n.targets[0], ast.Tuple) and len(n.targets[0].elts) == 2]
                for u in unpack:
                    g, table = norm(u.targets[0].elts[0]), norm(u.targets[0].elts[1])
                    # the functional (a networkx attribute, or a callable handed in as a parameter) is applied to g
                    fcalls = [c for c in ast.walk(b) if isinstance(c, ast.Call) and c.args and ((isinstance(c.func, ast.Attribute) and c.func.attr.endswith("_centrality")) or (isinstance(c.func, ast.Name) and c.func.id in params))]
                    on_g = [c for c in fcalls if norm(c.args[0]) == g]
                    other = [c for c in fcalls if c not in on_g and isinstance(c.func, ast.Attribute)]
                    res.add("K-VID", f, norm(u), "graph-of-projection", "ok" if on_g and not other else ("violation" if other else "unknown"), "" if on_g and not other else "the networkx functional is not applied to the graph returned by the projection", loc(fi, u))
                    trans = [s_ for s_ in ast.walk(b) if isinstance(s_, ast.Subscript) and norm(s_.value) == table and isinstance(s_.ctx, ast.Load)]
                    returned = any(isinstance(r, ast.Return) and r.value is not None and table in {x.id for x in ast.walk(r.value) if isinstance(x, ast.Name)} for r in ast.walk(b))
                    res.add("K-VID", f, norm(u), "translated", "ok" if trans else ("unknown" if returned else "violation"), "" if trans else "result keys are not translated back through the id table returned by the same projection call", loc(fi, u))
            if node_version:
                def _is_E(fi_, e_):
                    if isinstance(e_, ast.Constant):
                        return e_.value == "E"
                    if isinstance(e_, ast.Name):  # a module constant: `_EDGE_ID_MARKER = "E"`
                        return any(isinstance(a_, ast.Assign) and any(isinstance(t_, ast.Name) and t_.id == e_.id for t_ in a_.targets) and isinstance(a_.value, ast.Constant) and a_.value.value == "E" for a_ in fi_.module.tree.body)
                    return False

                # (the filter may sit in a predicate that is handed around as a value: every function of the module counts)
                mod_funcs = [g_ for g_ in ctx.prog.functions.values() if g_.module is v.fi.module]
                tests = [n for fi in ([b_[0] for b_ in bodies] + mod_funcs) for n in ast.walk(fi.node) if isinstance(n, ast.Compare) and len(n.ops) == 1 and isinstance(n.ops[0], (ast.In, ast.NotIn)) and _is_E(fi, n.left)]
                starts = [n for fi, _ in bodies for n in ast.walk(fi.node) if isinstance(n, ast.Call) and isinstance(n.func, ast.Attribute) and n.func.attr == "startswith" and n.args and isinstance(n.args[0], ast.Constant) and n.args[0].value in ("E", "N")]
                res.add("K-VID", f, '"E" not in k', "edge-vertices-dropped", "ok" if tests or starts else ("violation" if closed else "unknown"), "" if tests or starts else "the hyperedge vertices of the bipartite projection are not filtered out of the node centralities", loc(v.fi, v.fi.node))
    # ---- D-AVG
    with res.guard("D-AVG"):
        for name in ("s_betweenness_averaged", "s_closeness_averaged", "s_betweenness_nodes_averaged", "s_closenness_nodes_averaged"):
            v = ctx.view(f"s_centralities.{name}")
            f = v.fi.short
            bodies = _closure(ctx, v)
            ok_any = False
            for fi, _ in bodies:
                b = fi.node
                divs = [n for n in ast.walk(b) if isinstance(n, ast.BinOp) and isinstance(n.op, ast.Div) and isinstance(n.right, (ast.Name, ast.Call))]
                for dv in divs:
                    den = dv.right
                    if isinstance(den, ast.Name):
                        defs = [m for m in ast.walk(b) if isinstance(m, ast.Assign) and isinstance(m.targets[0], ast.Name) and m.targets[0].id == den.id]
                        den = defs[-1].value if defs else den
                    # a divisor that is COUNTED in the snapshot loop after a conditional `continue` (`if lg.number_of_edges() == 0: ...; continue` /
                    # `T += 1`) counts the snapshots that were not skipped: the average is taken over fewer snapshots than were iterated
                    if isinstance(dv.right, (ast.Name, ast.Call)):
                        dn_ = dv.right if isinstance(dv.right, ast.Name) else next((x for x in ast.walk(dv.right) if isinstance(x, ast.Name) and x.id not in ("max", "min", "float", "int")), None)
                        if dn_ is not None:
                            for lp_ in [l for l in ast.walk(b) if isinstance(l, ast.For)]:
                                augs_ = [a_ for a_ in lp_.body if isinstance(a_, ast.AugAssign) and isinstance(a_.target, ast.Name) and a_.target.id == dn_.id and isinstance(a_.op, ast.Add)]
                                skips_ = [i_ for i_ in lp_.body if isinstance(i_, ast.If) and any(isinstance(y, ast.Continue) for y in ast.walk(i_)) and augs_ and i_.lineno < augs_[0].lineno]
                                if augs_ and skips_:
                                    res.violation("D-AVG", f, norm(dv)[:80], "divisor", f"the divisor `{dn_.id}` is counted inside the loop over the snapshots AFTER `if {norm(skips_[0].test)[:40]}: ... continue`: snapshots that are skipped still contribute (zero) values but not to the count, so the sum is divided by fewer snapshots than there are", loc(fi, dv))
                                    ok_any = True
                    if not (isinstance(den, ast.Call) and isinstance(den.func, ast.Name) and den.func.id == "len" and den.args):
                        continue  # some other division
                    carg = den.args[0]
                    if isinstance(carg, ast.NamedExpr):
                        carg = carg.target  # len((snapshots := H.subhypergraph()))
                    coll = norm(carg)
                    # the snapshot collection is what some loop ranges over - directly, through .values() / .items(), or handed
                    # to map() / zip() / enumerate()
                    loops = [l for l in ast.walk(b) if isinstance(l, (ast.For, ast.comprehension)) and (coll == norm(l.iter) or norm(l.iter).startswith(coll + ".") or any(isinstance(x, (ast.Name, ast.Attribute)) and norm(x) == coll for x in ast.walk(l.iter)))]
                    # ... or what a functional pipeline consumes: map(f, snapshots.values()) / reduce / chain.from_iterable / zip
                    pipes = [c_ for c_ in ast.walk(b) if isinstance(c_, ast.Call) and norm(c_.func).split(".")[-1] in ("map", "filter", "reduce", "starmap", "from_iterable", "chain", "zip", "enumerate", "accumulate", "sum") and any(isinstance(x, (ast.Name, ast.Attribute)) and norm(x) == coll for a_ in c_.args for x in ast.walk(a_))]
                    good = bool(loops) or bool(pipes)
                    ok_any = ok_any or good
                    # positively another collection: a plain name / attribute that no loop of the function ranges over
                    plain = isinstance(carg, (ast.Name, ast.Attribute)) or (isinstance(carg, ast.Call) and isinstance(carg.func, ast.Attribute) and carg.func.attr in ("get_nodes", "get_edges", "num_nodes", "num_edges", "get_times", "keys", "values"))
                    res.add("D-AVG", f, norm(dv), "divisor", "ok" if good else ("violation" if plain else "unknown"), "" if good else "the sum over snapshots is not divided by the number of snapshots that were iterated", loc(fi, dv))
            if not ok_any:
                res.unknown("D-AVG", f, "res[k] / T", "averaged", "no division by the number of iterated snapshots was recognised", loc(v.fi, v.fi.node))
            else:
                res.ok("D-AVG", f, "res[k] / T", "averaged", loc(v.fi, v.fi.node))
            subs = [n for fi, _ in bodies for n in ast.walk(fi.node) if isinstance(n, ast.Call) and isinstance(n.func, ast.Attribute) and n.func.attr == "subhypergraph"]
            if subs:
                res.check(all(not s_.args and not s_.keywords for s_ in subs), "D-AVG", f, norm(subs[0]), "snapshots", "the average does not range over all per-time snapshots", loc(v.fi, v.fi.node))
            else:
                res.unknown("D-AVG", f, "H.subhypergraph()", "snapshots", "the per-time snapshots were not recognised", loc(v.fi, v.fi.node))
    # ---- D-SUB
    with res.guard("D-SUB"):
        v = ctx.view("sub_hypergraph_centrality.subhypergraph_centrality")
        bodies = _closure(ctx, v)
        top_param = v.fi.params[0].arg if v.fi.params else "hypergraph"
        calls = [(fi, bind, n) for fi, bind in bodies for n in ast.walk(fi.node) if isinstance(n, ast.Call) and isinstance(n.func, ast.Attribute) and n.func.attr == "adjacency_matrix"]
        if not calls:
            res.unknown("D-SUB", v.fi.short, "hypergraph.adjacency_matrix()", "adjacency", "no adjacency_matrix call found", loc(v.fi, v.fi.node))
        for fi, bind, c in calls:
            recv = c.func.value
            src = bind.get(recv.id) if isinstance(recv, ast.Name) else None
            good = isinstance(src, ast.Name) and src.id == top_param
            bad = isinstance(recv, ast.Name) and not good and (recv.id in bind or fi is v.fi)
            res.add("D-SUB", v.fi.short, norm(c), "adjacency", "ok" if good else ("violation" if bad else "unknown"), "" if good else "the centrality is not computed from the adjacency matrix of the given hypergraph", loc(fi, c))
        txt = " ".join(norm(fi.node) for fi, _ in bodies)
        res.add("D-SUB", v.fi.short, "np.linalg.eigh / special.logsumexp", "functional", "ok" if "eigh" in txt and "logsumexp" in txt else "unknown", "", loc(v.fi, v.fi.node))
    with res.guard("N-FANCYAUG in the eigenvector centralities"):
        from ..lints import check_fancy_augassign

        res.rules["N-FANCYAUG"] = "co-membership counts are accumulated per hyperedge: no `+=` through array-valued indices (repeated pairs would be written once)"
        for name in ("CEC_centrality", "ZEC_centrality", "HEC_centrality"):
            check_fancy_augassign(ctx, res, f"eigen_centralities.{name}")
    # ---- D-LABELIDX: the eigenvector centralities index their vectors by label (exemption) - the returned dict must
    with res.guard("D-LABELIDX: the eigenvector centralities index their vectors by label (exemption) - the returned dict must"):
        # pair each label with the entry at THAT label, not with the entry at its insertion position
        res.rules["D-LABELIDX"] = "CEC / ZEC / HEC return {node: x[node]} (or an equivalent pairing in label order), never labels zipped with a vector in insertion order"
        for name in ("CEC_centrality", "ZEC_centrality", "HEC_centrality"):
            v = ctx.view(f"eigen_centralities.{name}")
            rets = [n for n in ast.walk(v.fi.node) if isinstance(n, ast.Return) and n.value is not None]
            for r in rets:
                e = r.value
                ok = None
                if isinstance(e, ast.DictComp) and isinstance(e.value, ast.Subscript):
                    ok = norm(e.key) == norm(e.value.slice)
                elif isinstance(e, ast.Call) and norm(e.func) == "dict" and e.args and isinstance(e.args[0], ast.Call) and norm(e.args[0].func) == "zip":
                    first = e.args[0].args[0] if e.args[0].args else None
                    src = first
                    if isinstance(first, ast.Name):
                        defs = [m.value for m in ast.walk(v.fi.node) if isinstance(m, ast.Assign) and isinstance(m.targets[0], ast.Name) and m.targets[0].id == first.id]
                        src = defs[-1] if defs else first
                    txt = norm(src) if src is not None else ""
                    ok = txt.startswith("range(") or txt.startswith("sorted(")
                if ok is None:
                    res.unknown("D-LABELIDX", v.fi.short, norm(r), "pairing", "unrecognised construction of the result", loc(v.fi, r))
                else:
                    res.check(ok, "D-LABELIDX", v.fi.short, norm(r), "pairing", "labels are paired with vector entries by position in get_nodes() (insertion order) although the vector is indexed by label: scores land on the wrong nodes unless nodes were inserted in increasing order", loc(v.fi, r))
    res.assumptions += ["CEC / ZEC / HEC / apply index by node label (one-symbol exemptions: the property restricts them to hypergraphs labelled 0..N-1)", "networkx functionals are trusted"]
    with res.guard("general lint pack over the property's files"):
        from ..lints import check_pack

        check_pack(ctx, res, "C20")
    return res

import ast

from .. import forward as F
from ..kinds import Atom, Const
from ..model import AnalysisError, loc, norm, walk_no_nested
from ..report import Result
from ._containers import KIND_RULES

LEVEL_TEXT = (
    "Structural necessary conditions of C20, decided statically: each s-centrality delegates to the matching networkx functional "
    "on the matching projection (line graph with s forwarded / bipartite projection), translates result keys through the id table "
    "returned by that very projection call, applies the vertex-id test only to vertex ids (never to node labels), the averaged "
    "versions divide by len() of the snapshot collection they iterate, and the sub-hypergraph centrality takes the adjacency of "
    "the given hypergraph.  Decides the structure, not eigen-equations, positivity or normalisation."
)

# function -> (projection, networkx functional, takes s, node version?)      [frozen from the docstrings]
TABLE = {
    "s_betweenness": ("line_graph", "betweenness_centrality", True, False),
    "s_closeness": ("line_graph", "closeness_centrality", True, False),
    "s_betweenness_averaged": ("line_graph", "betweenness_centrality", True, False),
    "s_closeness_averaged": ("line_graph", "closeness_centrality", True, False),
    "s_betweenness_nodes": ("bipartite_projection", "betweenness_centrality", False, True),
    "s_closeness_nodes": ("bipartite_projection", "closeness_centrality", False, True),
    "s_betweenness_nodes_averaged": ("bipartite_projection", "betweenness_centrality", False, True),
    "s_closenness_nodes_averaged": ("bipartite_projection", "closeness_centrality", False, True),
}


def _closure(ctx, v):
    """the function body plus the bodies of module-level helpers it calls (inlining bound 1), as AST node lists"""
    nodes = [v.fi.node]
    for n in ast.walk(v.fi.node):
        if isinstance(n, ast.Call) and isinstance(n.func, ast.Name):
            r = ctx.prog.resolve_name(v.fi.module, n.func.id)
            from ..model import FunctionInfo

            if isinstance(r, FunctionInfo) and r.module is v.fi.module and r.node is not v.fi.node:
                nodes.append(r.node)
    return nodes


def run(ctx):
    res = Result("C20")
    res.rules.update({k: KIND_RULES[k] for k in ("C-SIG", "K-ARG")})
    res.rules.update({
        "K-VID": "vertex-id tests ('E' in k) apply to vertex ids only; result keys are translated through the id table of the same projection call",
        "K-KEY-LOCAL": "id tables are subscripted with ids",
        "D-DELEG": "each centrality delegates to the advertised networkx functional on the advertised projection",
        "F-USE": "s is forwarded to line_graph",
        "D-AVG": "averaged versions divide by len() of the snapshot collection they iterate",
        "D-SUB": "sub-hypergraph centrality uses the adjacency matrix of the given hypergraph",
    })
    files = ["hypergraphx/measures/s_centralities.py", "hypergraphx/measures/sub_hypergraph_centrality.py"]
    ctx.add_sites(res, ctx.sites(rules=("C-SIG", "K-ARG", "K-VID", "K-KEY-LOCAL"), files=files))
    for name, (proj, functional, takes_s, node_version) in TABLE.items():
        d = f"s_centralities.{name}"
        v = ctx.view(d)
        f = v.fi.short
        bodies = _closure(ctx, v)
        calls = [n for b in bodies for n in ast.walk(b) if isinstance(n, ast.Call)]
        pcalls = [c for c in calls if isinstance(c.func, ast.Name) and c.func.id in ("line_graph", "bipartite_projection")]
        # a projection passed as a callable (helper with a default / lambda)
        wrong = [c for c in pcalls if c.func.id != proj]
        if not pcalls:
            res.unknown("D-DELEG", f, proj + "(...)", "projection", "no direct projection call (the projection is passed around as a value)", loc(v.fi, v.fi.node))
        else:
            res.check(not wrong, "D-DELEG", f, norm(pcalls[0]), "projection", f"{name} is computed on {wrong[0].func.id if wrong else '?'} instead of {proj}", loc(v.fi, v.fi.node))
        ncalls = [c for c in calls if isinstance(c.func, ast.Attribute) and c.func.attr.endswith("_centrality")]
        badn = [c for c in ncalls if c.func.attr != functional]
        # references without a call (functional passed as an argument)
        refs = [n for b in bodies for n in ast.walk(b) if isinstance(n, ast.Attribute) and n.attr.endswith("_centrality")]
        badr = [n for n in refs if n.attr != functional and n in [x for x in ast.walk(v.fi.node)]]
        res.check((bool(ncalls) or bool(refs)) and not badn and not badr, "D-DELEG", f, norm((badn or ncalls or refs)[0]) if (badn or ncalls or refs) else functional, "functional", f"{name} does not delegate to networkx.{functional}", loc(v.fi, v.fi.node))
        if takes_s:
            with res.guard("F.check_usectx, res, d, s,"):
                F.check_use(ctx, res, d, ("s",))
            own = [c for c in ast.walk(v.fi.node) if isinstance(c, ast.Call) and isinstance(c.func, ast.Name) and c.func.id == "line_graph"]
            fw = [c for c in own if any(k.arg == "s" and norm(k.value) == "s" for k in c.keywords) or (len(c.args) >= 3 and norm(c.args[2]) == "s")]
            res.check(bool(own) and len(fw) == len(own), "F-USE", f, norm(own[0]) if own else "line_graph(H, s=s)", "s-forwarded", "the line graph is built without the caller's s (the centrality is always that of the 1-line graph)", loc(v.fi, own[0] if own else v.fi.node))
        # result keys go through the id table of the same projection call
        for b in bodies:
            unpack = [n for n in ast.walk(b) if isinstance(n, ast.Assign) and isinstance(n.value, ast.Call) and isinstance(n.value.func, ast.Name) and n.value.func.id in ("line_graph", "bipartite_projection") and isinstance(n.targets[0], ast.Tuple) and len(n.targets[0].elts) == 2]
            for u in unpack:
                g, table = norm(u.targets[0].elts[0]), norm(u.targets[0].elts[1])
                # networkx called on g; keys translated with table
                used_g = any(isinstance(c, ast.Call) and isinstance(c.func, ast.Attribute) and c.func.attr.endswith("_centrality") and c.args and norm(c.args[0]) == g for c in ast.walk(b))
                trans = [s for s in ast.walk(b) if isinstance(s, ast.Subscript) and norm(s.value) == table and isinstance(s.ctx, ast.Load)]
                res.check(used_g, "K-VID", f, norm(u), "graph-of-projection", "the networkx functional is not applied to the graph returned by the projection", loc(v.fi, u))
                res.check(bool(trans), "K-VID", f, norm(u), "translated", "result keys are not translated back through the id table returned by the same projection call", loc(v.fi, u))
        if node_version:
            tests = [n for n in ast.walk(v.fi.node) if isinstance(n, ast.Compare) and len(n.ops) == 1 and isinstance(n.ops[0], (ast.In, ast.NotIn)) and isinstance(n.left, ast.Constant) and n.left.value == "E"]
            res.check(bool(tests), "K-VID", f, '"E" not in k', "edge-vertices-dropped", "the hyperedge vertices of the bipartite projection are not filtered out of the node centralities", loc(v.fi, v.fi.node))
    # ---- D-AVG
    with res.guard("D-AVG"):
        for name in ("s_betweenness_averaged", "s_closeness_averaged", "s_betweenness_nodes_averaged", "s_closenness_nodes_averaged"):
            v = ctx.view(f"s_centralities.{name}")
            f = v.fi.short
            bodies = _closure(ctx, v)
            ok_any = False
            for b in bodies:
                divs = [n for n in ast.walk(b) if isinstance(n, ast.BinOp) and isinstance(n.op, ast.Div) and isinstance(n.right, ast.Name)]
                for dv in divs:
                    T = dv.right.id
                    defs = [m for m in ast.walk(b) if isinstance(m, ast.Assign) and isinstance(m.targets[0], ast.Name) and m.targets[0].id == T]
                    coll = None
                    if defs and isinstance(defs[-1].value, ast.Call) and isinstance(defs[-1].value.func, ast.Name) and defs[-1].value.func.id == "len":
                        coll = norm(defs[-1].value.args[0])
                    loops = [l for l in ast.walk(b) if isinstance(l, ast.For) and coll is not None and coll in norm(l.iter)]
                    good = coll is not None and bool(loops)
                    ok_any = ok_any or good
                    res.check(good, "D-AVG", f, norm(dv), "divisor", "the sum over snapshots is not divided by the number of snapshots that were iterated", loc(v.fi, dv))
            res.check(ok_any, "D-AVG", f, "res[k] / T", "averaged", "the per-snapshot values are not averaged over the snapshots", loc(v.fi, v.fi.node))
            subs = [n for b in bodies for n in ast.walk(b) if isinstance(n, ast.Call) and isinstance(n.func, ast.Attribute) and n.func.attr == "subhypergraph"]
            res.check(bool(subs) and all(not s.args and not s.keywords for s in subs), "D-AVG", f, norm(subs[0]) if subs else "H.subhypergraph()", "snapshots", "the average does not range over all per-time snapshots", loc(v.fi, v.fi.node))
    # ---- D-SUB
    with res.guard("D-SUB"):
        v = ctx.view("sub_hypergraph_centrality.subhypergraph_centrality")
        calls = [n for n in ast.walk(v.fi.node) if isinstance(n, ast.Call) and isinstance(n.func, ast.Attribute) and n.func.attr == "adjacency_matrix"]
        res.check(bool(calls) and all(norm(c.func.value) == "hypergraph" for c in calls), "D-SUB", v.fi.short, norm(calls[0]) if calls else "hypergraph.adjacency_matrix()", "adjacency", "the centrality is not computed from the adjacency matrix of the given hypergraph", loc(v.fi, v.fi.node))
        txt = norm(v.fi.node)
        res.check("eigh" in txt and "logsumexp" in txt, "D-SUB", v.fi.short, "np.linalg.eigh / special.logsumexp", "functional", "the log of the diagonal of exp(A) is not computed through the eigendecomposition / logsumexp", loc(v.fi, v.fi.node))
    # ---- D-LABELIDX: the eigenvector centralities index their vectors by label (exemption) - the returned dict must
    with res.guard("D-LABELIDX: the eigenvector centralities index their vectors by label (exemption) - the returned dict must"):
        # pair each label with the entry at THAT label, not with the entry at its insertion position
        res.rules["D-LABELIDX"] = "CEC / ZEC / HEC return {node: x[node]} (or an equivalent pairing in label order), never labels zipped with a vector in insertion order"
        for name in ("CEC_centrality", "ZEC_centrality", "HEC_centrality"):
            v = ctx.view(f"eigen_centralities.{name}")
            rets = [n for n in ast.walk(v.fi.node) if isinstance(n, ast.Return) and n.value is not None]
            for r in rets:
                e = r.value
                ok = None
                if isinstance(e, ast.DictComp) and isinstance(e.value, ast.Subscript):
                    ok = norm(e.key) == norm(e.value.slice)
                elif isinstance(e, ast.Call) and norm(e.func) == "dict" and e.args and isinstance(e.args[0], ast.Call) and norm(e.args[0].func) == "zip":
                    first = e.args[0].args[0] if e.args[0].args else None
                    src = first
                    if isinstance(first, ast.Name):
                        defs = [m.value for m in ast.walk(v.fi.node) if isinstance(m, ast.Assign) and isinstance(m.targets[0], ast.Name) and m.targets[0].id == first.id]
                        src = defs[-1] if defs else first
                    txt = norm(src) if src is not None else ""
                    ok = txt.startswith("range(") or txt.startswith("sorted(")
                if ok is None:
                    res.unknown("D-LABELIDX", v.fi.short, norm(r), "pairing", "unrecognised construction of the result", loc(v.fi, r))
                else:
                    res.check(ok, "D-LABELIDX", v.fi.short, norm(r), "pairing", "labels are paired with vector entries by position in get_nodes() (insertion order) although the vector is indexed by label: scores land on the wrong nodes unless nodes were inserted in increasing order", loc(v.fi, r))
    res.assumptions += ["CEC / ZEC / HEC / apply index by node label (one-symbol exemptions: the property restricts them to hypergraphs labelled 0..N-1)", "networkx functionals are trusted"]
    return res

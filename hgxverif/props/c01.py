from ._containers import run_container

LEVEL_TEXT = (
    "Structural necessary conditions of C01 on Hypergraph, decided statically: kind inference (units-of-measure for node / "
    "edge id / canonical key / weight / time / layer / size / order) over every table access and call of the class, plus CFG "
    "dominance / must-pass-through rules for the joint update of the tables.  Decides the structure, not the behavioural "
    "equivalence with the abstract model."
)


def run(ctx):
    res = run_container(ctx, "C01", "Hypergraph")
    return extra(ctx, res)


def extra(ctx, res):
    from ._clients import CC, DEGREE, VISITS, check_filter_clients

    with res.guard("check_filter_clientsctx, res, DEGREE  CC  VISITS"):
        check_filter_clients(ctx, res, DEGREE + CC + VISITS)
    with res.guard("general lint pack over the property's files"):
        from ..lints import check_pack

        check_pack(ctx, res, "C01")
    return res

import ast

from ..kinds import IDX, NODE, TIME, Atom, Dct, Lst, Seq, Tup, _Top, elem_of, unrole
from ..model import AnalysisError, loc, norm, walk_no_nested
from ..report import Result
from ._containers import KIND_RULES

LEVEL_TEXT = (
    "Structural necessary conditions of C09, decided statically: label / row-index discipline by kind inference (incidence "
    "coordinates come from encoder.transform, label-keyed dicts are subscripted by labels and index-keyed ones by indices, "
    "the returned mapping is the inverse of the very encoder that produced the rows), row-order provenance of the degree "
    "diagonal, the same order filter for incidence columns and weights, a diagonal-clearing operation before every adjacency "
    "return, and snapshot matrices keyed by the time of the snapshot they were computed from.  Decides the structure, not the "
    "numeric identities (B B^T, Laplacian coefficients, row sums)."
)

ADJ = ["linalg.adjacency_matrix", "linalg.adjacency_matrix_by_order"]


def run(ctx):
    res = Result("C09")
    res.rules.update({k: KIND_RULES[k] for k in ("C-SIG", "K-ARG")})
    res.rules.update({
        "K-KEY-LOCAL": "label-keyed dicts are subscripted by node labels, index-keyed dicts by row indices (K-IDX)",
        "K-ENC": "incidence rows come from encoder.transform and the returned mapping is get_inverse_mapping of the same encoder of the same hypergraph",
        "R-ROWORDER": "the degree diagonal is listed in row order (iteration ordered by row index), not in dict insertion order",
        "W-ORDER": "incidence columns and the weight vector are taken with the same order filter",
        "M-DIAG": "every return of an adjacency matrix passes through a diagonal-clearing operation on that matrix",
        "T-SNAP": "the matrix stored for time t is computed from the snapshot at t",
    })
    files = ["hypergraphx/linalg/linalg.py", "hypergraphx/utils/labeling.py"]
    ctx.add_sites(res, ctx.sites(rules=("C-SIG", "K-ARG", "K-KEY-LOCAL", "K-MEM"), files=files))

    # the per-order matrices are built on get_edges(order=..., subhypergraph=True, keep_isolated_nodes=...): its node set
    # decides the rows, so its must-flow rules are part of this property too
    from .. import rules_extract as X

    res.rules.update({"X-NODES": "the per-order sub-hypergraph keeps ALL nodes when keep_isolated_nodes is set (rows of the per-order matrices)", "X-WEIGHT": "weights reach the per-order sub-hypergraph", "X-FLAG": "same weightedness", "X-EMETA": "(shared with C05)", "X-NMETA": "(shared with C05)", "X-DELEG": "(shared with C05)"})
    with res.guard("X.check_extractionctx, res, Hypergraph.get_edges"):
        X.check_extraction(ctx, res, "Hypergraph.get_edges")
    with res.guard("X.check_nodes_before_return(Hypergraph.get_edges)"):
        X.check_nodes_before_return(ctx, res, "Hypergraph.get_edges")
    # ---- the encoder is fitted on the current node set: get_mapping answers from the live tables, or from a memo that every
    #      node-set change rebinds (E-CACHE)
    res.rules.update({"E-PURE": "get_mapping and the matrix builders leave the hypergraph unchanged (a memoised encoder is not a change by itself)", "E-CACHE": "a value cached on the hypergraph by a query (fitted encoder) is rebound by every method that changes the tables it was computed from"})
    from ..effects import Effects, check_pure

    eff = Effects(ctx)
    for cls in ("Hypergraph", "DirectedHypergraph", "TemporalHypergraph", "MultiplexHypergraph"):
        if "get_mapping" in ctx.methods(cls):
            with res.guard(f"E-PURE / E-CACHE of {cls}.get_mapping"):
                check_pure(ctx, eff, res, f"{cls}.get_mapping", roots=("self",))
    # the degree / Laplacian matrices are read off the incidence lists: a copy that shares them with its original makes an edit
    # of one hypergraph change the matrices of the other
    with res.guard("E-FRESHCOPY of Hypergraph.copy"):
        from ..effects import check_deepcopy

        res.rules["E-FRESHCOPY"] = "copy() shares no incidence list / table with the original (the per-order degree matrices are computed from them)"
        check_deepcopy(ctx, res, "Hypergraph.copy")
    # the per-order matrices are computed from get_edges(order=...) / get_weights(order=...): a query that changes what a later
    # query of another order returns (a shared per-order bucket extended in place) makes the matrices depend on the call history
    for q_ in ("Hypergraph.get_edges", "Hypergraph.get_weights"):
        with res.guard(f"E-PURE of {q_}"):
            check_pure(ctx, eff, res, q_, roots=("self",))
    # the degree matrices are read off the incidence lists: a rollback that restores a one-level copy of them leaves stale ids
    with res.guard("E-CHECKPOINT of Hypergraph"):
        from .. import rules_container as RC_

        RC_.check_shallow_checkpoint(ctx, res, "Hypergraph")
    with res.guard("E-PURE of linalg.binary_incidence_matrix"):
        bi = ctx.require("linalg.binary_incidence_matrix")
        check_pure(ctx, eff, res, "linalg.binary_incidence_matrix", roots=(bi.params[0].arg,))
    # ---- M-MAPCONST: no matrix builder hands back a CONSTANT mapping / a matrix of constant shape: the mapping is a bijection
    #      onto the nodes of the hypergraph (kept isolated nodes included), so it is empty only for a hypergraph without nodes
    with res.guard("M-MAPCONST"):
        res.rules["M-MAPCONST"] = "no matrix builder returns a literal empty mapping / a matrix of literal shape unless the path is taken only for a hypergraph without nodes"
        n_ret = 0
        for q_, g_ in sorted(ctx.prog.functions.items()):
            if g_.module.relpath not in ("hypergraphx/linalg/linalg.py",) and not (g_.module.relpath.startswith("hypergraphx/linalg/_")):
                continue
            if g_.cls is not None or g_.parent is not None or g_.name.startswith("_"):
                continue
            pn = [a.arg for a in g_.params]
            if not pn or pn[0] not in ("hypergraph", "temporal_hypergraph", "HG", "hg", "h"):
                continue
            mv = ctx.view(g_)
            for r in walk_no_nested(g_.node):
                if not (isinstance(r, ast.Return) and r.value is not None):
                    continue
                n_ret += 1
                e = mv.inline(r.value, depth=2)
                parts = e.elts if isinstance(e, ast.Tuple) else [e]
                # (a lone `return {}` is an empty RESULT container - `{order: matrix}` of a hypergraph without hyperedges -, the node
                # mapping is handed back next to a matrix)
                const_map = [p_ for p_ in parts if isinstance(e, ast.Tuple) and ((isinstance(p_, ast.Dict) and not p_.keys) or (isinstance(p_, ast.Call) and norm(p_.func) == "dict" and not p_.args and not p_.keywords))]
                const_mat = [p_ for p_ in parts if isinstance(p_, ast.Call) and p_.args and isinstance(p_.args[0], ast.Tuple) and p_.args[0].elts and all(isinstance(x, ast.Constant) and isinstance(x.value, int) for x in p_.args[0].elts) and any(t_ in norm(p_.func) for t_ in ("csr_", "csc_", "coo_", "zeros", "empty", "lil_"))]
                if not const_map and not const_mat:
                    continue
                # legitimate only under a test that the hypergraph has no nodes
                rid = mv.cfg_id(r)
                guarded = False
                for iff in walk_no_nested(g_.node):
                    if isinstance(iff, ast.If):
                        t_i = norm(mv.inline(iff.test))
                        tid = mv.cfg.by_ast.get(id(iff.test))
                        if ("num_nodes" in t_i or "get_nodes" in t_i) and tid is not None and any(mv.cfg.branch_dominated(tid, lab, rid) for lab in ("T", "F")):
                            guarded = True
                what = "an empty mapping" if const_map else "a matrix of literal shape"
                res.add("M-MAPCONST", g_.short, norm(r)[:120], "constant-result", "unknown" if guarded else "violation", "" if guarded else f"{what} is returned on a path that does not depend on the hypergraph having no nodes: with isolated nodes kept the rows / the mapping must cover all N nodes (an absent order gives an N x N zero matrix, not a 0 x 0 one)", loc(g_, r))
        if n_ret == 0:
            raise AnalysisError("linalg: no matrix builder found (anchor vanished)")
        res.ok("M-MAPCONST", "linalg", f"{n_ret} returns of matrix builders scanned", "scan", "hypergraphx/linalg/linalg.py")
    # ---- K-ENC
    with res.guard("K-ENC"):
        v = ctx.view("linalg.binary_incidence_matrix")
        f = v.fi.short
        enc_defs = [n for n in walk_no_nested(v.fi.node) if isinstance(n, ast.Assign) and isinstance(n.value, ast.Call) and isinstance(n.value.func, ast.Attribute) and n.value.func.attr == "get_mapping"]
        if len(enc_defs) != 1 or not isinstance(enc_defs[0].targets[0], ast.Name):
            raise AnalysisError(f"{f}: encoder definition idiom not recognised")
        enc = enc_defs[0].targets[0].id
        hg = norm(enc_defs[0].value.func.value)
        first_param = v.fi.params[0].arg if v.fi.params else "hypergraph"
        res.check(hg == first_param, "K-ENC", f, norm(enc_defs[0]), "same-hypergraph", "the encoder is not the mapping of the hypergraph whose matrix is built", loc(v.fi, enc_defs[0]))
        tr = [n for n in walk_no_nested(v.fi.node) if isinstance(n, ast.Call) and isinstance(n.func, ast.Attribute) and n.func.attr == "transform"]
        if not tr:
            res.unknown("K-ENC", f, "encoder.transform(hye)", "rows", "no relabelling call recognised", loc(v.fi, v.fi.node))
        else:
            res.check(all(norm(t.func.value) == enc for t in tr), "K-ENC", f, norm(tr[0]), "rows", "hyperedges are not relabelled with the hypergraph's encoder before the incidence is built", loc(v.fi, tr[0]))
        for t in tr:
            src = v.enclosing(t, (ast.ListComp, ast.For, ast.GeneratorExp))
            it = src.generators[0].iter if isinstance(src, (ast.ListComp, ast.GeneratorExp)) else (src.iter if src is not None else None)
            if it is None:
                res.unknown("K-ENC", f, norm(t), "columns", "the loop over the hyperedges was not recognised", loc(v.fi, t))
                continue
            it = v.inline(it)
            ok = isinstance(it, ast.Call) and isinstance(it.func, ast.Attribute) and it.func.attr == "get_edges" and norm(it.func.value) == hg and not it.args and not it.keywords
            res.check(ok, "K-ENC", f, norm(it), "columns", "the incidence columns are not the hyperedges of get_edges() of the same hypergraph, in that order", loc(v.fi, t))
        # the mapping returned next to the matrix: built from the same encoder, and of kind {row index: label}
        maps = []
        for r in [n for n in walk_no_nested(v.fi.node) if isinstance(n, ast.Return) and n.value is not None]:
            for e in ([r.value.body, r.value.orelse] if isinstance(r.value, ast.IfExp) else [r.value]):
                if isinstance(e, ast.Tuple) and len(e.elts) == 2:
                    maps.append((r, e.elts[1]))
        if not maps:
            res.unknown("K-ENC", f, "return incidence, mapping", "mapping", "no (matrix, mapping) return recognised", loc(v.fi, v.fi.node))
        for r, m in maps:
            e = v.inline(m, depth=1) if isinstance(m, ast.Name) else m
            encs = {x.id for x in ast.walk(e) if isinstance(x, ast.Name)}
            k = unrole(v.kind(m))
            if enc not in encs:
                other = [x for x in ast.walk(e) if isinstance(x, ast.Call) and isinstance(x.func, ast.Attribute) and x.func.attr == "get_mapping"]
                res.add("K-ENC", f, norm(r), "mapping", "violation" if other or isinstance(e, (ast.Dict, ast.Constant)) else "unknown", "the returned node mapping is not the inverse of the encoder that produced the rows", loc(v.fi, r))
                continue
            fwd = isinstance(k, Dct) and isinstance(k.key, Atom) and k.key.name == "NODE"
            res.add("K-ENC", f, norm(r), "mapping", "violation" if fwd or norm(e) == enc else "ok", "the returned node mapping is not the inverse ({row index: label}) of the encoder that produced the rows" if fwd or norm(e) == enc else "", loc(v.fi, r))
        gim = ctx.view("labeling.get_inverse_mapping")
        rk = unrole(ctx.interp.analyse_entry(gim.fi))
        good = isinstance(rk, Dct) and rk.key == IDX and isinstance(rk.val, Atom) and rk.val.name == "NODE"
        wrong = isinstance(rk, Dct) and ((isinstance(rk.key, Atom) and rk.key.name == "NODE") or rk.val == IDX)
        res.add("K-ENC", gim.fi.short, "return kind " + repr(rk), "index->label", "ok" if good else ("violation" if wrong else "unknown"), "" if good else "get_inverse_mapping does not return a {row index: label} dict", loc(gim.fi, gim.fi.node))
        for c in [n for n in walk_no_nested(v.fi.node) if isinstance(n, ast.Call) and isinstance(n.func, ast.Name) and n.func.id == "hye_list_to_binary_incidence" and n.args]:
            hk = v.kind(c.args[0])
            e = elem_of(elem_of(hk))
            res.add("K-ENC", f, "hye_list " + repr(hk), "row-kind", "ok" if e == IDX else ("unknown" if isinstance(e, _Top) else "violation"), "" if e == IDX else f"the relabelled hyperedges hold {e!r} values, not row indices", loc(v.fi, c))
    # ---- R-ROWORDER on sparse.diags(<list>) in degree_matrix
    with res.guard("R-ROWORDER on sparse.diags(<list>) in degree_matrix"):
        v = ctx.view("linalg.degree_matrix")
        f = v.fi.short
        diags = [n for n in walk_no_nested(v.fi.node) if isinstance(n, ast.Call) and isinstance(n.func, ast.Attribute) and n.func.attr == "diags" and n.args]
        if not diags:
            raise AnalysisError(f"{f}: sparse.diags call not found")
        for d in diags:
            arg = d.args[0]
            src = arg
            if isinstance(arg, ast.Name):
                defs = [n for n in walk_no_nested(v.fi.node) if isinstance(n, ast.Assign) and isinstance(n.targets[0], ast.Name) and n.targets[0].id == arg.id]
                src = defs[-1].value if defs else None
            verdict, why = _row_ordered(v, src)
            # `degrees = <values of D in D's order>; rows = [index_of[k] for k in D]; diag = degrees[rows]` is a GATHER: entry r receives the
            # value at position rows[r], i.e. the INVERSE of the intended placement (right only for permutations that are their own
            # inverse).  Placing value i at row rows[i] is a scatter: `diag[rows] = degrees`
            if isinstance(src, ast.Subscript) and isinstance(src.ctx, ast.Load) and isinstance(src.value, ast.Name) and isinstance(src.slice, ast.Name):
                vals_ = v.inline(src.value, depth=1)
                rows_ = v.inline(src.slice, depth=1)
                if isinstance(rows_, ast.ListComp) and len(rows_.generators) == 1 and isinstance(rows_.elt, ast.Subscript):
                    pop_ = norm(rows_.generators[0].iter)
                    same_pop = any(isinstance(x, (ast.Name, ast.Attribute, ast.Call)) and norm(x) in (pop_, pop_ + ".values()", pop_ + ".keys()") for x in ast.walk(vals_))
                    if same_pop:
                        verdict, why = "violation", f"`{norm(src)}` indexes the values (listed in the order of `{pop_}`) BY the row numbers computed for the same order: that gathers - row r gets the value of the rows[r]-th item - where the values have to be scattered to their rows (`out[rows] = values`); the two agree only when the permutation is its own inverse"
            res.add("R-ROWORDER", f, norm(src) if src is not None else norm(arg), "diagonal", verdict, why, loc(v.fi, d))
    # ---- W-ORDER
    with res.guard("W-ORDER"):
        v = ctx.view("linalg.incidence_matrix_by_order")
        f = v.fi.short
        ge = [n for n in walk_no_nested(v.fi.node) if isinstance(n, ast.Call) and isinstance(n.func, ast.Attribute) and n.func.attr == "get_edges"]
        gw = [n for n in walk_no_nested(v.fi.node) if isinstance(n, ast.Call) and isinstance(n.func, ast.Attribute) and n.func.attr == "get_weights"]
        if not ge or not gw:
            raise AnalysisError(f"{f}: get_edges / get_weights idiom not recognised")

        def filt(c):
            d = {k.arg: norm(k.value) for k in c.keywords if k.arg in ("order", "size", "up_to")}
            for i, a in enumerate(c.args[:2]):
                d[("order", "size")[i]] = norm(a)
            return d

        res.check(all(filt(a) == filt(b) for a in ge for b in gw) and all("order" in filt(a) or "size" in filt(a) for a in ge), "W-ORDER", f, f"{norm(ge[0])} / {norm(gw[0])}", "same-filter", "the columns (get_edges) and the weights (get_weights) are selected with different order filters: weights multiply the wrong columns", loc(v.fi, gw[0]))
        res.check(all(norm(a.func.value) == norm(b.func.value) for a in ge for b in gw), "W-ORDER", f, norm(gw[0]), "same-hypergraph", "columns and weights come from different hypergraphs", loc(v.fi, gw[0]))
        v = ctx.view("linalg.incidence_matrix")
        gw = [n for n in walk_no_nested(v.fi.node) if isinstance(n, ast.Call) and isinstance(n.func, ast.Attribute) and n.func.attr == "get_weights"]
        res.check(bool(gw) and all(not g.args and not g.keywords and norm(g.func.value) == "hypergraph" for g in gw), "W-ORDER", v.fi.short, norm(gw[0]) if gw else "hypergraph.get_weights()", "unfiltered", "the weighted incidence multiplies the unfiltered columns by a filtered / foreign weight vector", loc(v.fi, gw[0] if gw else v.fi.node))
    # ---- M-DIAG
    with res.guard("M-DIAG"):
        for d in ADJ:
            v = ctx.view(d)
            f = v.fi.short
            rets = [n for n in walk_no_nested(v.fi.node) if isinstance(n, ast.Return) and n.value is not None]
            if not rets:
                raise AnalysisError(f"{f}: no return")

            def clears_diag_expr(e, name=None):
                """`X - diags(X.diagonal())` (X any expression, or the given name)"""
                if isinstance(e, ast.BinOp) and isinstance(e.op, ast.Sub):
                    right = v.inline(e.right) if not hasattr(e.right, "_no_inline") else e.right
                    txt = norm(right)
                    left_i = norm(v.inline(e.left))
                    return "diags" in txt and ".diagonal()" in txt and ((norm(e.left) + ".diagonal()") in txt or (left_i + ".diagonal()") in txt or ("(" + left_i + ").diagonal()") in txt)
                return False

            def clearing_helper(call):
                """a repo helper that returns its argument minus its own diagonal"""
                for callee in ctx.callees(v.fi, getattr(call, "_orig", call)):
                    for r in ast.walk(callee.node):
                        if isinstance(r, ast.Return) and r.value is not None:
                            cv = ctx.view(callee)
                            e = cv.inline(r.value)
                            if isinstance(e, ast.BinOp) and isinstance(e.op, ast.Sub) and "diags" in norm(e.right) and norm(e.left) + ".diagonal()" in norm(e.right):
                                return True
                return False

            clear = set()
            opaque = set()
            for n in walk_no_nested(v.fi.node):
                if isinstance(n, ast.Call) and isinstance(n.func, ast.Attribute) and n.func.attr == "setdiag" and n.args and isinstance(n.args[0], ast.Constant) and n.args[0].value == 0:
                    clear.add((v.cfg_id(n), norm(n.func.value)))
                if isinstance(n, ast.Assign) and isinstance(n.targets[0], ast.Name):
                    nm = n.targets[0].id
                    if clears_diag_expr(n.value):
                        clear.add((v.cfg_id(n), nm))
                    elif isinstance(n.value, ast.Call) and clearing_helper(n.value):
                        clear.add((v.cfg_id(n), nm))
                    elif isinstance(n.value, ast.Call) and ctx.callees(v.fi, n.value) and not (isinstance(n.value.func, ast.Name) and n.value.func.id in ("incidence_matrix", "incidence_matrix_by_order", "binary_incidence_matrix")):
                        opaque.add(nm)
            for r in rets:
                rv = r.value
                if isinstance(rv, ast.Name) and isinstance(v.resolve(rv), (ast.Tuple, ast.IfExp)):
                    rv = v.resolve(rv)  # result = (adj, mapping); return result
                exprs = [rv.body, rv.orelse] if isinstance(rv, ast.IfExp) else [rv]
                for e in exprs:
                    var = e.elts[0] if isinstance(e, ast.Tuple) else e
                    name = norm(var)
                    ids = {i for i, nm in clear if nm == name}
                    rid = v.cfg_id(r)
                    ok = bool(ids) and not v.cfg.reaches_without(v.cfg.entry, rid, ids)
                    if not ok and not isinstance(var, ast.Name):
                        ok = clears_diag_expr(var) or (isinstance(var, ast.Call) and clearing_helper(var))
                        if not ok:
                            res.unknown("M-DIAG", f, norm(r), name[:60], "the returned matrix expression was not recognised", loc(v.fi, r))
                            continue
                    if not ok and name in opaque and not ids:
                        res.unknown("M-DIAG", f, norm(r), name, "the matrix comes from a helper whose handling of the diagonal is not decided", loc(v.fi, r))
                        continue
                    res.check(ok, "M-DIAG", f, norm(r), name, "an adjacency matrix is returned without its diagonal having been cleared (B B^T has the node degrees on the diagonal)", loc(v.fi, r))
    with res.guard("G-GROUPBY in the snapshot builder"):
        from ..lints import check_groupby_sorted

        res.rules["G-GROUPBY"] = "records are grouped by time only after sorting by time (itertools.groupby merges consecutive items only)"
        check_groupby_sorted(ctx, res, "TemporalHypergraph.subhypergraph")
    with res.guard("G-GROUPBY in the matrix builders"):
        from ..lints import check_groupby_in_file

        check_groupby_in_file(ctx, res, "hypergraphx/linalg/linalg.py")
    # ---- T-SNAP
    with res.guard("T-SNAP"):
        for d in ("linalg.temporal_adjacency_matrix", "linalg.temporal_adjacency_matrix_by_order"):
            v = ctx.view(d)
            f = v.fi.short
            loops = [n for n in walk_no_nested(v.fi.node) if isinstance(n, ast.For) and isinstance(n.target, ast.Name)]
            found = False
            for lp in loops:
                t = lp.target.id
                if unrole(elem_of(v.kind(lp.iter))) != TIME:
                    continue
                found = True
                snap = [n for n in ast.walk(lp) if isinstance(n, ast.Assign) and isinstance(n.value, ast.Subscript) and isinstance(n.value.slice, ast.Name)]
                snap_ok = [n for n in snap if n.value.slice.id == t]
                res.check(bool(snap_ok), "T-SNAP", f, norm(snap[0]) if snap else f"subhypergraphs[{t}]", "snapshot-of-t", "the snapshot is not looked up at the loop's time", loc(v.fi, lp))
                snap_name = snap_ok[0].targets[0].id if snap_ok and isinstance(snap_ok[0].targets[0], ast.Name) else None
                calls = [n for n in ast.walk(lp) if isinstance(n, ast.Call) and isinstance(n.func, ast.Name) and n.func.id in ("adjacency_matrix", "adjacency_matrix_by_order")]
                res.check(bool(calls) and all(c.args and norm(c.args[0]) == snap_name for c in calls), "T-SNAP", f, norm(calls[0]) if calls else "adjacency_matrix(hypergraph_t)", "matrix-of-snapshot", "the matrix is not computed from the snapshot of the loop's time", loc(v.fi, lp))
                stores = [n for n in ast.walk(lp) if isinstance(n, ast.Assign) and isinstance(n.targets[0], ast.Subscript) and isinstance(n.targets[0].value, ast.Name)]
                res.check(bool(stores) and all(isinstance(s.targets[0].slice, ast.Name) and s.targets[0].slice.id == t for s in stores), "T-SNAP", f, norm(stores[0]) if stores else f"result[{t}] = adj_t", "keyed-by-t", "a snapshot matrix / mapping is stored under another key than its time", loc(v.fi, lp))
            if not found:
                raise AnalysisError(f"{f}: loop over snapshot times not recognised")
    res.assumptions += [
        "adjacency_tensor indexes by label (one-symbol exemption: the property restricts the tensor to hypergraphs on nodes 0..N-1)",
        "LabelEncoder: transform maps labels to 0..N-1 in sorted label order, classes_ is that order, inverse_transform is its inverse (library summary)",
    ]
    # ---- N-DTYPE: the binary incidence is built as uint8 (hye_list_to_binary_incidence).  Products and sums of it count hyperedges;
    #      in uint8 they wrap at 256.  A matrix that may still be the raw uint8 incidence (no multiplication by weights, no astype)
    #      never enters `@` / `.dot` / `.sum`
    with res.guard("N-DTYPE"):
        res.rules["N-DTYPE"] = "no matrix product / sum is taken over a matrix that may still be the raw uint8 binary incidence (counts above 255 wrap around)"
        lin = [g for g in ctx.prog.functions.values() if g.module.relpath in ("hypergraphx/linalg/linalg.py",) or g.module.relpath.startswith("hypergraphx/linalg/_")]
        PASS = ("tocsr", "tocoo", "tocsc", "transpose", "copy", "T")

        def strip_pass(e):
            while True:
                if isinstance(e, ast.Call) and isinstance(e.func, ast.Attribute) and e.func.attr in PASS and not e.args:
                    e = e.func.value
                elif isinstance(e, ast.Attribute) and e.attr == "T":
                    e = e.value
                else:
                    return e

        raw = set()
        for g in lin:
            for r in ast.walk(g.node):
                if isinstance(r, ast.Call) and any(k.arg == "dtype" and norm(k.value) in ("np.uint8", "numpy.uint8", "np.bool_", "bool", "np.int8", "np.uint16", "np.int16") for k in r.keywords) and any(isinstance(x, ast.Return) and any(y is r for y in ast.walk(x)) for x in ast.walk(g.node)):
                    raw.add(g.qualname)

        def origin_raw(gv, e, depth=0):
            """`e` may evaluate to the result of a raw-uint8 producer, untouched"""
            e = strip_pass(e)
            if isinstance(e, ast.Call):
                return any(c.qualname in raw for c in ctx.callees(gv.fi, e))
            if isinstance(e, ast.IfExp):
                return origin_raw(gv, e.body, depth) or origin_raw(gv, e.orelse, depth)
            if isinstance(e, ast.Name) and depth < 4:
                for a in walk_no_nested(gv.fi.node):
                    if isinstance(a, ast.Assign):
                        for t in a.targets:
                            if isinstance(t, ast.Name) and t.id == e.id and origin_raw(gv, a.value, depth + 1):
                                return True
                            if isinstance(t, ast.Tuple) and t.elts and isinstance(t.elts[0], ast.Name) and t.elts[0].id == e.id and origin_raw(gv, a.value, depth + 1):
                                return True
            return False

        grew = True
        while grew:
            grew = False
            for g in lin:
                if g.qualname in raw:
                    continue
                gv = ctx.view(g)
                for r in walk_no_nested(g.node):
                    if isinstance(r, ast.Return) and r.value is not None:
                        vals = r.value.elts[:1] if isinstance(r.value, ast.Tuple) else [r.value]
                        if any(origin_raw(gv, x) for x in vals):
                            raw.add(g.qualname)
                            grew = True
        n_prod = 0
        for g in lin:
            gv = ctx.view(g)
            for b in walk_no_nested(g.node):
                ops = []
                if isinstance(b, ast.BinOp) and isinstance(b.op, ast.MatMult):
                    ops = [b.left, b.right]
                elif isinstance(b, ast.Call) and isinstance(b.func, ast.Attribute) and b.func.attr in ("dot", "sum") :
                    ops = [b.func.value] + (list(b.args) if b.func.attr == "dot" else [])
                if not ops:
                    continue
                n_prod += 1
                bad = [o for o in ops if origin_raw(gv, o)]
                if bad:
                    res.violation("N-DTYPE", g.short, norm(b)[:100], norm(bad[0])[:40], f"`{norm(bad[0])[:40]}` may still be the raw uint8 incidence matrix here (on some path it was neither multiplied by the weights nor converted): the product / sum counts hyperedges in uint8, so a pair of nodes that shares 256 or more hyperedges (or a node with such a degree) gets its count modulo 256", loc(g, b))
        if n_prod:
            res.ok("N-DTYPE", "linalg", f"{n_prod} products / sums examined; raw-uint8 producers: {len(raw)}", "scan", "hypergraphx/linalg/linalg.py")
    # ---- M-ROWMAP: a builder that receives (matrix, mapping) from another builder and hands a mapping back hands back THAT mapping
    #      (or the mapping of the very object the rows were numbered from): the rows are numbered by the encoder of the hypergraph the
    #      inner builder was given, and the encoder of another hypergraph (the parent of a sub-hypergraph) ranks the nodes differently
    with res.guard("M-ROWMAP"):
        res.rules["M-ROWMAP"] = "the mapping a matrix builder returns is the one its rows were numbered with (never the mapping of another hypergraph than the one the incidence was built from)"
        lin = [g for g in ctx.prog.functions.values() if g.module.relpath == "hypergraphx/linalg/linalg.py" or g.module.relpath.startswith("hypergraphx/linalg/_")]
        n_pairs = 0
        for g in lin:
            gv = ctx.view(g)
            for a in walk_no_nested(g.node):
                if not (isinstance(a, ast.Assign) and len(a.targets) == 1 and isinstance(a.targets[0], ast.Tuple) and len(a.targets[0].elts) == 2 and all(isinstance(e, ast.Name) for e in a.targets[0].elts) and isinstance(a.value, ast.Call)):
                    continue
                if not any(k.arg == "return_mapping" and isinstance(k.value, ast.Constant) and k.value.value is True for k in a.value.keywords) or not a.value.args:
                    continue
                n_pairs += 1
                mname = a.targets[0].elts[1].id
                src = norm(gv.inline(a.value.args[0], depth=2))
                src_raw = norm(a.value.args[0])
                others = [o for o in walk_no_nested(g.node) if isinstance(o, ast.Assign) and o is not a and any(isinstance(t, ast.Name) and t.id == mname for t in o.targets)]
                bad = None
                for o in others:
                    for c in ast.walk(o.value):
                        if isinstance(c, ast.Call) and isinstance(c.func, ast.Attribute) and c.func.attr == "get_mapping":
                            recv = norm(gv.inline(c.func.value, depth=2))
                            if recv != src and norm(c.func.value) != src_raw:
                                bad = (o, c)
                if bad:
                    res.violation("M-ROWMAP", g.short, norm(bad[0])[:100], "same-encoder", f"the rows of `{a.targets[0].elts[0].id}` are numbered by the encoder of `{src_raw[:60]}`, but the mapping handed back is re-bound to `{norm(bad[1])[:60]}` - the mapping of another hypergraph: a node that is missing from the one ranks the later nodes differently in the other, so row i is not node mapping[i]", loc(g, bad[0]))
                else:
                    res.add("M-ROWMAP", g.short, norm(a)[:100], "same-encoder", "ok" if not others else "unknown", "" if not others else f"`{mname}` is re-bound later in the function", loc(g, a))
        if n_pairs == 0:
            res.unknown("M-ROWMAP", "linalg", "(matrix, mapping) = builder(..., return_mapping=True)", "same-encoder", "no builder receives a (matrix, mapping) pair from another builder", "hypergraphx/linalg/linalg.py")
    with res.guard("M-SHAPE"):
        check_incidence_shape(ctx, res)
    with res.guard("general lint pack over the property's files"):
        from ..lints import check_pack

        check_pack(ctx, res, "C09")
    return res


def _row_ordered(v, src):
    """Is the list `src` enumerated in row-index order?"""
    if src is None:
        return "unknown", "definition of the diagonal not found"
    if isinstance(src, ast.ListComp) and len(src.generators) == 1:
        it = src.generators[0].iter
        if isinstance(it, ast.Name):
            it = v.inline(it, depth=1)  # rows = sorted(...); [d[n] for n in rows]
        if isinstance(it, ast.Call) and isinstance(it.func, ast.Name) and it.func.id == "range":
            return "ok", ""
        if isinstance(it, ast.Call) and isinstance(it.func, ast.Name) and it.func.id == "sorted" and it.args:
            base = it.args[0]
            bk = unrole(v.kind(base))
            ek = elem_of(bk)
            keykw = [k for k in it.keywords if k.arg == "key"]
            if not keykw:
                if ek == IDX:
                    return "ok", ""
                if isinstance(ek, Atom) and ek.name == "NODE":
                    # sorted labels == encoder row order (LabelEncoder sorts its classes)
                    return "ok", ""
                return "unknown", f"sorted() over {bk!r}"
            kv = keykw[0].value
            if isinstance(kv, ast.Attribute) and kv.attr == "get":
                dk = unrole(v.kind(kv.value))
                if isinstance(dk, Dct) and dk.val == IDX:
                    return "ok", ""
                if isinstance(dk, Dct) and isinstance(dk.val, _Top):
                    return "unknown", f"sort key {dk!r}"
                return "violation", f"rows are ordered by {dk!r}, not by row index"
            return "unknown", "unrecognised sort key"
        ik = unrole(v.kind(it))
        tableish = isinstance(ik, Dct) or (isinstance(it, ast.Call) and isinstance(it.func, ast.Attribute) and it.func.attr in ("keys", "values", "items", "get_nodes"))
        if not tableish:
            return "unknown", f"order of `{norm(it)}` not decided"
        return "violation", f"the diagonal is enumerated by iterating {norm(it)} ({ik!r}): that is insertion order, not row order"
    # list(d.values()) and friends
    for x in ast.walk(src):
        if isinstance(x, ast.Call) and isinstance(x.func, ast.Attribute) and x.func.attr in ("values", "items", "keys"):
            return "violation", f"the diagonal is taken from {norm(x)}: dict insertion order, not row order"
    return "unknown", "unrecognised construction of the diagonal"


def check_incidence_shape(ctx, res, rule="M-SHAPE"):
    """binary_incidence_matrix builds the N x E incidence of a hypergraph: N is the number of NODES of the hypergraph, not the largest
    row index that occurs in a hyperedge.  The shape handed to hye_list_to_binary_incidence cannot be None (None lets the helper
    infer N from the hyperedges, so isolated nodes whose labels sort last lose their rows)."""
    from ..kinds import Union, only_none

    def can_be_none(k):
        return only_none(k) or (isinstance(k, Union) and any(only_none(m) for m in k.members))

    res.rules[rule] = "the incidence matrix of a hypergraph is built with shape (num_nodes, num_edges) on every path (never with the shape inferred from the hyperedges)"
    fi = ctx.require("linalg.binary_incidence_matrix")
    n = 0
    for cf in ctx.interp.callfacts:
        if cf.caller.qualname != fi.qualname or cf.callee.name != "hye_list_to_binary_incidence":
            continue
        n += 1
        if "shape" not in cf.bound:
            res.violation(rule, fi.short, norm(cf.node)[:100], "shape-given", "hye_list_to_binary_incidence is called without a shape: N is inferred as (largest row index in a hyperedge) + 1, so isolated nodes that sort after every connected node have no row", loc(fi, cf.node))
        else:
            res.check(not can_be_none(cf.bound["shape"]), rule, fi.short, norm(cf.node)[:100], "shape-given", "the shape handed to hye_list_to_binary_incidence can be None here (a parameter that defaults to None is forwarded as it is): the helper then infers N from the hyperedges, and isolated nodes whose labels sort last lose their rows - HypergraphMT / HySC take N and the isolated nodes from this matrix", loc(fi, cf.node))
    if n == 0:
        res.unknown(rule, fi.short, "hye_list_to_binary_incidence(..., shape)", "shape-given", "the construction of the incidence matrix was not recognised", loc(fi, fi.node))

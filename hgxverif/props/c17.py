import ast

from .. import cmpshape as M
from .. import rng as R
from ..calls import check_external_methods, check_self_attrs
from ..model import AnalysisError, is_self_attr, loc, norm, walk_no_nested
from ..report import Result
from ._containers import KIND_RULES

LEVEL_TEXT = (
    "Structural necessary conditions of C17, decided statically: every random draw reachable from HypergraphMT.fit / HySC.fit goes "
    "through the RandomState seeded from fit's seed (re-seeding between realisations derives from that stream) or through KMeans "
    "with random_state=seed, no global numpy / stdlib draw is reachable, the seed is handed on to the spectral initialiser; every "
    "attribute used on the sparse incidence arrays exists on the installed scipy class and every self attribute read exists; "
    "k-means labels are written to the rows listed in non_isolates (never to isolated rows).  The numeric clauses (non-negativity, "
    "normalisation, ascent, agreement with the definition) are not decided."
)


def run(ctx):
    res = Result("C17")
    res.rules.update({k: KIND_RULES[k] for k in ("C-SIG",)})
    res.rules.update({
        "R-SEEDED": "draws use self.prng, which is a RandomState built from fit's seed; KMeans gets random_state=seed; the seed is forwarded to HySC",
        "R-GLOBAL": "no global-module draw is reachable from fit()",
        "C-EXT": "attributes used on the sparse incidence arrays exist on the installed scipy.sparse.csr_array",
        "C-ATTR": "every self attribute read exists in the class",
        "I-ROWS": "k-means labels are stored at the rows listed in self.non_isolates, paired position by position",
        "I-ISOL": "isolates / non_isolates are the rows with zero / non-zero stored entries of the same incidence matrix",
    })
    files = ["hypergraphx/communities/hypergraph_mt/model.py", "hypergraphx/communities/hy_sc/model.py"]
    ctx.add_sites(res, ctx.sites(rules=("C-SIG",), files=files))
    for cls in ("HypergraphMT", "HySC"):
        with res.guard("check_self_attrsctx, res, cls"):
            check_self_attrs(ctx, res, cls)
        with res.guard(f"C-EXT on the sparse incidence of {cls}"):
            n = check_external_methods(ctx, res, cls, ("self.incidence", "self.binary_incidence"), "scipy.sparse", "csr_array")
            if n < 3:
                raise AnalysisError(f"{cls}: only {n} uses of the sparse incidence found")
    # ---- HypergraphMT seeding
    with res.guard("HypergraphMT seeding"):
        ss = ctx.view("HypergraphMT._set_seed")
        gens = [n for n in ast.walk(ss.fi.node) if isinstance(n, ast.Call) and R.extern_name(ctx.prog, ss.fi, n) in ("numpy.random.RandomState", "numpy.random.default_rng")]
        if not gens:
            res.unknown("R-SEEDED", ss.fi.short, "np.random.RandomState(seed)", "from-seed", "no generator construction recognised", loc(ss.fi, ss.fi.node))
        for g in gens:
            arg = g.args[0] if g.args else next((k.value for k in g.keywords if k.arg == "seed"), None)
            e = ss.inline(arg) if arg is not None else None
            # `self.seed` counts when it is assigned from the parameter in this very function
            if e is not None and is_self_attr(e):
                st_ = [n for n in ast.walk(ss.fi.node) if isinstance(n, ast.Assign) and is_self_attr(n.targets[0], e.attr)]
                e = ss.inline(st_[-1].value) if st_ else e
            from_seed = e is not None and "seed" in {x.id for x in ast.walk(e) if isinstance(x, ast.Name)}
            res.add("R-SEEDED", ss.fi.short, norm(g), "from-seed", "ok" if from_seed else ("violation" if arg is None or isinstance(e, ast.Constant) else "unknown"), "" if from_seed else "the generator is not constructed from the seed", loc(ss.fi, g))
        st = [n for n in ast.walk(ss.fi.node) if isinstance(n, ast.Assign) and is_self_attr(n.targets[0], "prng")]
        res.check(bool(st), "R-SEEDED", ss.fi.short, "self.prng = ...", "stored", "the seeded generator is not stored as self.prng", loc(ss.fi, ss.fi.node))
        with res.guard("M.check_none_testsctx, res, HypergraphMT._set_seed, paramsseed,"):
            M.check_none_tests(ctx, res, "HypergraphMT._set_seed", params=("seed",))
        fit = ctx.view("HypergraphMT.fit")
        cfp = ctx.view("HypergraphMT._check_fit_params")
        fw = [n for n in ast.walk(fit.fi.node) if isinstance(n, ast.Call) and isinstance(n.func, ast.Attribute) and n.func.attr == "_check_fit_params"]
        res.check(bool(fw) and all(any(k.arg == "seed" and norm(k.value) == "seed" for k in c.keywords) for c in fw), "R-SEEDED", fit.fi.short, "self._check_fit_params(seed=seed)", "forward", "fit's seed is not handed to the parameter check that seeds the generator", loc(fit.fi, fit.fi.node))
        sc = [n for n in ast.walk(cfp.fi.node) if isinstance(n, ast.Call) and isinstance(n.func, ast.Attribute) and n.func.attr == "_set_seed"]
        if not sc:
            # the seeding moved into a helper that is handed the seed under its own name: `self._preprocess_data(..., seed=seed)`
            hop, seen_h = cfp, set()
            while hop is not None and hop.fi.qualname not in seen_h and not sc:
                seen_h.add(hop.fi.qualname)
                nxt = None
                for c in walk_no_nested(hop.fi.node):
                    if isinstance(c, ast.Call) and (any(k.arg == "seed" and norm(k.value) == "seed" for k in c.keywords) or any(norm(a_) == "seed" for a_ in c.args)):
                        for g in ctx.callees(hop.fi, c):
                            if g.cls is cfp.fi.cls and any(a_.arg == "seed" for a_ in list(g.params) + list(g.node.args.kwonlyargs)):
                                nxt = ctx.view(g)
                hop = nxt
                if hop is not None:
                    sc = [n for n in ast.walk(hop.fi.node) if isinstance(n, ast.Call) and isinstance(n.func, ast.Attribute) and n.func.attr == "_set_seed"]
            if not sc and any(isinstance(c, ast.Call) and any(isinstance(x, ast.Name) and x.id == "seed" for a_ in list(c.args) + [k.value for k in c.keywords] for x in ast.walk(a_)) for c in walk_no_nested(cfp.fi.node)):
                res.unknown("R-SEEDED", cfp.fi.short, "self._set_seed(seed)", "set", "the seed is handed on; where the generator is seeded was not found", loc(cfp.fi, cfp.fi.node))
                sc = None
        if sc is not None:
          res.check(bool(sc) and all(c.args and norm(c.args[0]) == "seed" for c in sc), "R-SEEDED", cfp.fi.short, norm(sc[0]) if sc else "self._set_seed(seed)", "set", "the generator is not (re)seeded with fit's seed", loc(cfp.fi, cfp.fi.node))
        rs = [n for n in ast.walk(fit.fi.node) if isinstance(n, ast.Call) and isinstance(n.func, ast.Attribute) and n.func.attr == "_set_seed"]
        for c in rs:
            arg_i = fit.inline(c.args[0]) if c.args else None
            names = {norm(x) for x in ast.walk(arg_i)} if arg_i is not None else set()
            good = "self.seed" in names and any(x.startswith("self.prng.") for x in names)
            # positively unrelated to the seeded stream: a constant, the clock, the global generator
            bad = arg_i is None or isinstance(arg_i, ast.Constant) or any(x.startswith(("time.", "np.random.", "numpy.random.", "random.")) for x in names)
            res.add("R-SEEDED", fit.fi.short, norm(c), "reseed", "ok" if good else ("violation" if bad else "unknown"), "" if good else "the per-realisation re-seeding does not derive from the seeded stream (self.seed + self.prng.randint(...))", loc(fit.fi, c))
        for cls, entry in (("HypergraphMT", "HypergraphMT.fit"), ("HySC", "HySC.fit")):
            e = ctx.require(entry)
            clo = R.closure(ctx, e)
            nd = 0
            for g in clo:
                for d in R.draws_in(ctx, g):
                    nd += 1
                    if d.source.startswith("global:"):
                        res.violation("R-GLOBAL", g.short, norm(d.node), d.source, f"a draw from a global module state is reachable from {entry}: two runs with the same seed differ", d.where())
                    else:
                        recv = d.source.split(":", 1)[1]
                        res.check(recv == "self.prng", "R-SEEDED", g.short, norm(d.node), recv, f"draw from `{recv}`, not from the seeded self.prng", d.where())
            res.ok("R-GLOBAL", e.short, f"{nd} draw sites in {len(clo)} reachable functions", "scan", loc(e, e.node))
            if cls == "HypergraphMT" and nd < 4:
                raise AnalysisError(f"only {nd} draw sites found in the closure of {entry}")
        # seed handed to the spectral initialiser
        for d in ("HypergraphMT._initialize_u0", "HypergraphMT._initialize_u_w"):
            v = ctx.view(d)
            cs = [n for n in ast.walk(v.fi.node) if isinstance(n, ast.Call) and norm(n.func) == "calculate_u_HySC"]
            for c in cs:
                res.check(any(k.arg == "seed" and norm(k.value) == "self.seed" for k in c.keywords), "R-SEEDED", v.fi.short, norm(c), "hysc-seed", "the spectral initialisation is not seeded with the model's seed", loc(v.fi, c))
        v = ctx.view("model.calculate_u_HySC") if ctx.has("model.calculate_u_HySC") else None
        cu = ctx.prog.functions.get("hypergraphx.communities.hypergraph_mt.model.calculate_u_HySC")
        if cu is None:
            raise AnalysisError("calculate_u_HySC not found")
        # (the class may come in through a seam parameter that defaults to it: `_factory=HySC` ... `_factory(seed=seed)`)
        seam = {p_ for p_, d_ in cu.defaults().items() if norm(d_) == "HySC"}
        cs = [n for n in ast.walk(cu.node) if isinstance(n, ast.Call) and (norm(n.func) == "HySC" or (isinstance(n.func, ast.Name) and n.func.id in seam))]
        if not cs:
            res.unknown("R-SEEDED", cu.short, "HySC(seed=seed)", "hysc-ctor", "the construction of the spectral model was not recognised", loc(cu, cu.node))
        else:
          res.check(all(any(k.arg == "seed" and norm(k.value) == "seed" for k in c.keywords) for c in cs), "R-SEEDED", cu.short, norm(cs[0]), "hysc-ctor", "HySC is constructed without the seed", loc(cu, cu.node))
    # ---- HySC: KMeans(random_state=seed), fit passes self.seed
    with res.guard("HySC: KMeans(random_state=seed), fit passes self.seed"):
        ak = ctx.view("HySC.apply_kmeans")
        km = [n for n in ast.walk(ak.fi.node) if isinstance(n, ast.Call) and norm(n.func) == "KMeans"]
        if not km:
            raise AnalysisError("HySC.apply_kmeans: KMeans call not found")
        for c in km:
            res.check(any(k.arg == "random_state" and norm(k.value) == "seed" for k in c.keywords), "R-SEEDED", ak.fi.short, norm(c), "kmeans", "k-means is not seeded with the seed argument", loc(ak.fi, c))
        hf = ctx.view("HySC.fit")
        units = [hf.fi] + [g for g in R.closure(ctx, hf.fi, depth=3) if g.cls is hf.fi.cls and g.qualname != hf.fi.qualname]
        ac = [(u, n) for u in units for n in ast.walk(u.node) if isinstance(n, ast.Call) and isinstance(n.func, ast.Attribute) and n.func.attr == "apply_kmeans"]
        if not ac:
            res.unknown("R-SEEDED", hf.fi.short, "self.apply_kmeans(..., seed=self.seed)", "fit-seed", "no apply_kmeans call found in fit or the private methods it calls", loc(hf.fi, hf.fi.node))
        for u, c in ac:
            kwv = next((k.value for k in c.keywords if k.arg == "seed"), None)
            if kwv is None:
                pnames = [a.arg for a in ctx.require("HySC.apply_kmeans").params][1:]
                kwv = c.args[pnames.index("seed")] if "seed" in pnames and pnames.index("seed") < len(c.args) else None
            e = ctx.view(u).inline(kwv) if kwv is not None else None
            good = e is not None and norm(e) in ("self.seed", "seed")
            res.add("R-SEEDED", hf.fi.short, norm(c), "fit-seed", "ok" if good else ("violation" if kwv is None or isinstance(e, ast.Constant) else "unknown"), "" if good else "fit does not hand the model's seed to k-means", loc(u, c))
    # ---- I-ROWS
    # ---- I-POP: the closed-form start of the elementary symmetric polynomials counts the rows that carry the dummy value.
    #      psiOmega[0] (the plain sum) and the counts of the higher degrees have to range over the same rows.
    with res.guard("I-POP"):
        res.rules["I-POP"] = "the closed-form initial psiOmega counts the same rows for every degree (the count of the higher degrees ranges over the rows summed for degree 1)"
        pv = ctx.view("HypergraphMT._initialize_psiOmega")
        pf = pv.fi.short

        def restricted(e):
            e = pv.inline(e)
            return any(isinstance(x, ast.Attribute) and x.attr in ("non_isolates", "isolates") for x in ast.walk(e))

        combs = [n for n in walk_no_nested(pv.fi.node) if isinstance(n, ast.Call) and norm(n.func).split(".")[-1] == "comb" and n.args]
        sums = [n for n in walk_no_nested(pv.fi.node) if isinstance(n, ast.Assign) and isinstance(n.targets[0], ast.Subscript) and norm(n.targets[0].value).endswith("psiOmega") and isinstance(n.value, ast.Call) and norm(n.value.func).split(".")[-1] == "sum"]
        if not combs or not sums:
            res.unknown("I-POP", pf, "comb(Nk, d + 1)", "same-rows", "closed-form initialisation idiom not recognised", loc(pv.fi, pv.fi.node))
        else:
            rs = {restricted(s_.value) for s_ in sums}
            for c in combs:
                rc = restricted(c.args[0])
                # a count taken from the dummy matrix itself (count_nonzero / shape of the summed array) is the summed population
                st = "ok" if rs == {rc} else "violation"
                res.add("I-POP", pf, norm(c), "same-rows", st, "" if st == "ok" else f"degree 1 sums the dummy memberships over {'the non-isolated' if True in rs else 'all'} rows, but the higher degrees count {'only the non-isolated' if rc else 'all'} rows (`{norm(pv.inline(c.args[0]))[:80]}`): with isolated nodes the polynomials start inconsistent and the offset is carried through every incremental update", loc(pv.fi, c))
    with res.guard("N-RECUR"):
        from ..lints import check_self_shift_recurrence

        res.rules["N-RECUR"] = "the degree recursions of the psi matrices run degree by degree (never as one slice assignment that reads the rows it is about to write)"
        for name_, mfi in sorted(ctx.methods("HypergraphMT").items()):
            if "psi" in name_.lower():
                check_self_shift_recurrence(ctx, res, mfi)
    # ---- I-SCRATCH: a per-node scratch matrix (psiBarOmega: the polynomials WITHOUT node i) is written by one method and read by
    #      another one that is called for the same node.  Where a function calls both for the loop's node, the reader is reached on
    #      no path of the iteration that skipped the writer (the reader would use the scratch values of the previous node)
    # ---- I-SWEEPALL: the closed-form psiOmega is built from the dummy memberships of ALL N rows; the initial sweep replaces the dummy row of
    #      every node - isolated ones included (their row goes to zero through the same incremental update) - so it ranges over all N nodes
    with res.guard("I-SWEEPALL"):
        res.rules["I-SWEEPALL"] = "the initial update of u / psiOmega sweeps all N nodes (the dummy contribution of the isolated nodes is removed by the same incremental update), never the non-isolated ones only"
        if "_initial_update_u_psi" in ctx.methods("HypergraphMT"):
            iv = ctx.view("HypergraphMT._initial_update_u_psi")
            lps_ = [l for l in walk_no_nested(iv.fi.node) if isinstance(l, ast.For) and any(isinstance(c, ast.Call) and isinstance(c.func, ast.Attribute) and c.func.attr == "_update_psiOmega" for c in ast.walk(l))]
            if not lps_:
                res.unknown("I-SWEEPALL", iv.fi.short, "for i in range(self.N)", "all-nodes", "the sweep that calls _update_psiOmega was not recognised", loc(iv.fi, iv.fi.node))
            for l in lps_:
                it_ = norm(iv.inline(l.iter, depth=2))
                if "non_isolates" in it_:
                    res.violation("I-SWEEPALL", iv.fi.short, f"for {norm(l.target)} in {norm(l.iter)[:40]}", "all-nodes", f"the initial sweep ranges over `{norm(l.iter)[:30]}`: the isolated nodes keep their dummy contribution in psiOmega (it was built from all N rows), so every later normalisation term - and the reported log-likelihood - is off", loc(iv.fi, l))
                elif it_ in ("range(self.N)", "range(0, self.N)") or "self.N" in it_:
                    res.ok("I-SWEEPALL", iv.fi.short, f"for {norm(l.target)} in {norm(l.iter)[:40]}", "all-nodes", loc(iv.fi, l))
                else:
                    res.unknown("I-SWEEPALL", iv.fi.short, f"for {norm(l.target)} in {norm(l.iter)[:40]}", "all-nodes", "the population of the initial sweep was not recognised", loc(iv.fi, l))
    with res.guard("I-SCRATCH"):
        res.rules["I-SCRATCH"] = "a per-node scratch matrix is recomputed for the node on every path of the iteration that reaches the method reading it (never left at the previous node's values on one branch)"
        n_pairs = 0
        for cname in ("HypergraphMT",):
            ms = ctx.methods(cname)

            def attr_uses(mfi):
                rd, wr = set(), set()
                for x in ast.walk(mfi.node):
                    if isinstance(x, ast.Attribute) and isinstance(x.value, ast.Name) and x.value.id == "self":
                        (wr if isinstance(x.ctx, ast.Store) else rd).add(x.attr)
                    if isinstance(x, ast.Subscript) and isinstance(x.ctx, ast.Store):
                        b = x.value
                        while isinstance(b, ast.Subscript):
                            b = b.value
                        if isinstance(b, ast.Attribute) and isinstance(b.value, ast.Name) and b.value.id == "self":
                            wr.add(b.attr)
                return rd, wr

            def recomputed(mfi, attr):
                """every element store of self.<attr> in the method computes the element anew: no store reads the element it writes
                (an incrementally maintained matrix - `M[d] = M[d] + delta`, `M[d] += delta` - is state, not scratch)"""
                n_st = 0
                for x in ast.walk(mfi.node):
                    tg = None
                    if isinstance(x, ast.AugAssign):
                        tg, incr = x.target, True
                    elif isinstance(x, ast.Assign) and len(x.targets) == 1:
                        tg, incr = x.targets[0], False
                    if not isinstance(tg, ast.Subscript) or f"self.{attr}" not in norm(tg):
                        continue
                    if isinstance(tg.slice, ast.Name) and "mask" in tg.slice.id.lower():
                        continue  # clipping of tiny negative values
                    n_st += 1
                    if incr or any(norm(y) == norm(tg) for y in ast.walk(x.value)):
                        return False
                return n_st > 0

            uses = {n_: attr_uses(m_) for n_, m_ in ms.items()}
            per_node = {n_ for n_, m_ in ms.items() if len(m_.params) >= 2 and m_.params[1].arg == "i"}
            # scratch attribute: written (by subscript stores) in exactly one per-node method, read by another per-node method, and
            # written nowhere else except __init__-like whole-attribute initialisers
            pairs = []
            for w_ in sorted(per_node):
                for a_ in sorted(uses[w_][1]):
                    other_writers = [n_ for n_ in per_node if n_ != w_ and a_ in uses[n_][1]]
                    if other_writers:
                        continue
                    for r_ in sorted(per_node):
                        if r_ != w_ and a_ in uses[r_][0] and a_ not in uses[r_][1] and a_ in uses[w_][1] and not (set(uses[r_][1]) & {a_}):
                            # the writer derives the scratch from what the reader maintains (psiBarOmega from psiOmega)
                            if uses[r_][1] & uses[w_][0] and recomputed(ms[w_], a_):
                                pairs.append((w_, r_, a_))
            for w_, r_, a_ in pairs:
                for name_, mfi in sorted(ms.items()):
                    if name_ in (w_, r_):
                        continue
                    mv = ctx.view(mfi)

                    def calls_of(target):
                        return [c for c in walk_no_nested(mfi.node) if isinstance(c, ast.Call) and isinstance(c.func, ast.Attribute) and c.func.attr == target and isinstance(c.func.value, ast.Name) and c.func.value.id == "self"]

                    rc, wc = calls_of(r_), calls_of(w_)
                    if not rc:
                        continue
                    n_pairs += 1
                    wids = {mv.cfg_id(c) for c in wc} - {None}
                    for c in rc:
                        cid = mv.cfg_id(c)
                        lp = mv.enclosing(c, (ast.For, ast.While))
                        if not wc or cid is None:
                            res.unknown("I-SCRATCH", mfi.short, norm(c)[:80], f"{a_}:fresh", f"`{w_}` is not called in this function; whether self.{a_} holds the values of this node was not established", loc(mfi, c))
                            continue
                        if lp is not None:
                            hid = mv.cfg_id(lp)
                            starts = [s0 for s0 in mv.cfg.succ(hid, "iter")] if hid is not None else []
                            if not starts and hid is not None:
                                starts = [s0 for s0 in mv.cfg.succ(hid)]
                            skip = any(s0 == cid or (s0 not in wids and mv.cfg.reaches_without(s0, cid, wids | {hid})) for s0 in starts)
                        else:
                            skip = mv.cfg.reaches_without(mv.cfg.entry, cid, wids)
                        res.check(not skip, "I-SCRATCH", mfi.short, norm(c)[:80], f"{a_}:fresh", f"`{r_}` reads self.{a_}, the scratch matrix `{w_}` computes for ONE node; a path of the iteration reaches this call without `{w_}` having run for the node, so the correction uses the scratch values of the previous node (zeros for the first) and the symmetric polynomials drift from u - the reported log-likelihood is no longer that of (u, w)", loc(mfi, c))
        if n_pairs == 0:
            res.unknown("I-SCRATCH", "HypergraphMT", "writer / reader of a per-node scratch matrix", "fresh", "no writer / reader pair of a per-node scratch matrix recognised", "hypergraphx/communities/hypergraph_mt/model.py")
    with res.guard("I-ROWS"):
        stores = [n for n in walk_no_nested(ak.fi.node) if isinstance(n, ast.Assign) and isinstance(n.targets[0], ast.Subscript) and norm(n.targets[0].value) == "X_pred"]
        if not stores:
            raise AnalysisError("HySC.apply_kmeans: label store not found")
        for s in stores:
            sl = s.targets[0].slice
            row, col = (sl.elts + [None, None])[:2] if isinstance(sl, ast.Tuple) else (sl, None)
            lp = ak.enclosing(s, (ast.For,))
            why = "cluster labels are not written to the rows of the non-isolated nodes in their own order: isolated nodes get a community and non-isolated ones lose theirs"
            st_ = "unknown"
            coli = (ak.resolve(col) if isinstance(col, ast.Name) else col) if col is not None else None  # `cluster = y_pred[idx]`
            if lp is None:
                st_ = "ok" if norm(row) == "self.non_isolates" and col is not None and norm(col) == "y_pred" else ("violation" if norm(row) in ("self.isolates",) or isinstance(row, ast.Slice) or (isinstance(ak.inline(row), ast.Call) and norm(ak.inline(row).func) in ("np.arange", "numpy.arange", "range", "list")) else "unknown")
            else:
                it = lp.iter
                node = pos = partner = None
                if isinstance(it, ast.Call) and norm(it.func) == "enumerate" and it.args and isinstance(lp.target, ast.Tuple):
                    src, pos, node = norm(it.args[0]), norm(lp.target.elts[0]), norm(lp.target.elts[1])
                elif isinstance(it, ast.Call) and norm(it.func) == "zip" and len(it.args) == 2 and isinstance(lp.target, ast.Tuple):
                    src, node, partner = norm(it.args[0]), norm(lp.target.elts[0]), (norm(lp.target.elts[1]), norm(it.args[1]))
                elif isinstance(it, ast.Call) and norm(it.func) == "range" and len(it.args) == 1 and isinstance(it.args[0], ast.Call) and norm(it.args[0].func) == "len" and it.args[0].args and isinstance(lp.target, ast.Name):
                    # a loop over POSITIONS: `for idx in range(len(self.non_isolates)): i = self.non_isolates[idx]; X_pred[i, y_pred[idx]] = 1`
                    src, pos = norm(it.args[0].args[0]), lp.target.id
                    rowi = ak.resolve(row) if isinstance(row, ast.Name) else row
                    node = norm(row) if norm(rowi) == f"{src}[{pos}]" else None
                else:
                    src, node = norm(it), norm(lp.target)
                    # a manual position counter: initialised to 0 before the loop, advanced by one per iteration
                    for x in lp.body:
                        if isinstance(x, ast.AugAssign) and isinstance(x.target, ast.Name) and isinstance(x.op, ast.Add) and isinstance(x.value, ast.Constant) and x.value.value == 1:
                            init = [d for d in walk_no_nested(ak.fi.node) if isinstance(d, ast.Assign) and isinstance(d.targets[0], ast.Name) and d.targets[0].id == x.target.id]
                            if len(init) == 1 and isinstance(init[0].value, ast.Constant) and init[0].value.value == 0 and init[0].lineno < lp.lineno:
                                pos = x.target.id
                row_ok = norm(row) == node and src == "self.non_isolates"
                col_txt = norm(coli) if coli is not None else None
                col_ok = (pos is not None and col_txt == f"y_pred[{pos}]") or (partner is not None and col_txt == partner[0] and partner[1] == "y_pred")
                if row_ok and col_ok:
                    st_ = "ok"
                elif src in ("self.isolates", "range(self.N)") or (col_txt == f"y_pred[{node}]" and node is not None and norm(row) == node) or (pos is not None and norm(row) == pos):
                    # rows of the wrong population, or the label looked up by the ROW index instead of the position among the
                    # non-isolated nodes
                    st_ = "violation"
            res.add("I-ROWS", ak.fi.short, norm(s), "rows=non_isolates", st_, "" if st_ == "ok" else (why if st_ == "violation" else "how rows and labels are paired was not recognised"), loc(ak.fi, s))
    # ---- E-DERIVED: an attribute kept as an elementwise function of a parameter array (self.log_u = np.log(self.u + eps)) is
    #      refreshed after every store into that array: no store to self.u[...] reaches the end of its method (or the next
    #      iteration) without the matching store to self.log_u
    with res.guard("E-DERIVED"):
        res.rules["E-DERIVED"] = "an attribute cached as an elementwise function of a parameter array is refreshed after every change of that array (no store to the array after the last refresh on any path)"
        UFUNCS = ("log", "exp", "sqrt", "log1p", "square", "abs", "log2", "log10")
        n_der = 0
        for cls in ("HypergraphMT", "HySC"):
            methods = ctx.methods(cls)
            derived = {}  # D -> X
            for m in methods.values():
                for n in walk_no_nested(m.node):
                    if isinstance(n, ast.Assign) and len(n.targets) == 1 and is_self_attr(n.targets[0]) and isinstance(n.value, ast.Call) and isinstance(n.value.func, ast.Attribute) and n.value.func.attr in UFUNCS and norm(n.value.func.value) in ("np", "numpy"):
                        srcs = {x.attr for x in ast.walk(n.value) if isinstance(x, ast.Attribute) and is_self_attr(x)}
                        if len(srcs) == 1 and n.targets[0].attr not in srcs:
                            derived[n.targets[0].attr] = srcs.pop()
            for D, X in sorted(derived.items()):
                for m in methods.values():
                    mv = ctx.view(m)

                    def stores_of(attr):
                        out = []
                        for n in walk_no_nested(m.node):
                            tg = n.targets if isinstance(n, ast.Assign) else ([n.target] if isinstance(n, ast.AugAssign) else [])
                            for t in tg:
                                base = t
                                while isinstance(base, ast.Subscript):
                                    base = base.value
                                if is_self_attr(base, attr):
                                    out.append(n)
                        return out

                    xs, ds = stores_of(X), stores_of(D)
                    if not xs:
                        continue
                    d_ids = {mv.cfg_id(d_) for d_ in ds} - {None}
                    for x_ in xs:
                        n_der += 1
                        xid = mv.cfg_id(x_)
                        if xid is None:
                            continue
                        lp = mv.enclosing(x_, (ast.For, ast.While))
                        # (row-by-row refresh inside a loop: every iteration has to end refreshed; a refresh of the whole array
                        # after the loop is enough otherwise)
                        per_row = lp is not None and any(any(d_ is y for y in ast.walk(lp)) for d_ in ds)
                        ends = [mv.cfg.exit] + ([mv.cfg.by_ast[id(lp)] if isinstance(lp, ast.For) else mv.cfg.by_ast[id(lp.test)]] if per_row else [])
                        stale = any(mv.cfg.reaches_without(xid, e_, d_ids) for e_ in ends)
                        if not stale:
                            res.ok("E-DERIVED", m.short, norm(x_)[:100], f"{D}<-{X}", loc(m, x_))
                        elif not ds:
                            # the method never touches the derived attribute: it may be recomputed as a whole by its caller
                            res.unknown("E-DERIVED", m.short, norm(x_)[:100], f"{D}<-{X}", f"self.{X} is changed here and self.{D} is not refreshed in this method", loc(m, x_))
                        else:
                            res.violation("E-DERIVED", m.short, norm(x_)[:100], f"{D}<-{X}", f"self.{D} caches a function of self.{X} and is refreshed in this method, but this store to self.{X} comes after the last refresh on some path: self.{D} keeps the value of the old self.{X} (the likelihood / rho are computed from memberships that are not the stored ones)", loc(m, x_))
        if n_der == 0:
            res.ok("E-DERIVED", "HypergraphMT", "no attribute cached as an elementwise function of a parameter array", "scan", "hypergraphx/communities/hypergraph_mt/model.py")
    # ---- I-ISOL
    with res.guard("I-ISOL"):
        for d in ("HySC._init_data", "HypergraphMT._check_fit_params"):
            v = ctx.view(d)
            iso = {}
            views = {}
            binds = {}

            def text_of(attr):
                """the defining expression with locals written out and, for a helper, its parameters replaced by the arguments"""
                import copy as _copy

                e = _copy.deepcopy(views[attr].inline(iso[attr], depth=3))
                b_ = binds.get(attr) or {}

                class Sub(ast.NodeTransformer):
                    def visit_Name(self, node):
                        return _copy.deepcopy(b_[node.id]) if node.id in b_ and isinstance(node.ctx, ast.Load) else node

                return norm(Sub().visit(e))

            for n in walk_no_nested(v.fi.node):
                if isinstance(n, ast.Assign) and any(is_self_attr(n.targets[0], a) for a in ("isolates", "non_isolates")):
                    iso[n.targets[0].attr] = n.value
                    views[n.targets[0].attr] = v
                # `self.isolates, self.non_isolates = helper(...)`: the components of the tuple the helper returns
                if isinstance(n, ast.Assign) and isinstance(n.targets[0], ast.Tuple) and all(is_self_attr(t) for t in n.targets[0].elts) and {t.attr for t in n.targets[0].elts} & {"isolates", "non_isolates"}:
                    comps = None
                    if isinstance(n.value, ast.Tuple) and len(n.value.elts) == len(n.targets[0].elts):
                        comps, cv = n.value.elts, v
                    elif isinstance(n.value, ast.Call):
                        for g in ctx.callees(v.fi, n.value):
                            gv = ctx.view(g)
                            rets = [r for r in walk_no_nested(g.node) if isinstance(r, ast.Return) and r.value is not None]
                            if len(rets) == 1:
                                rv = gv.resolve(rets[0].value) if isinstance(rets[0].value, ast.Name) else rets[0].value
                                if isinstance(rv, ast.Tuple) and len(rv.elts) == len(n.targets[0].elts):
                                    comps, cv = rv.elts, gv
                    if comps is not None:
                        binding = {}
                        if cv is not v:
                            pn_ = [a_.arg for a_ in cv.fi.params]
                            for i_, a_ in enumerate(n.value.args):
                                if i_ < len(pn_):
                                    binding[pn_[i_]] = a_
                            for k_ in n.value.keywords:
                                if k_.arg:
                                    binding[k_.arg] = k_.value
                        for t, c in zip(n.targets[0].elts, comps):
                            iso[t.attr] = c
                            views[t.attr] = cv
                            binds[t.attr] = binding
            if set(iso) != {"isolates", "non_isolates"}:
                raise AnalysisError(f"{v.fi.short}: isolates / non_isolates definition not found")
            a, b = text_of("isolates"), text_of("non_isolates")
            if "== 0" in a and "!= 0" in b:
                res.check(a.replace("== 0", "X") == b.replace("!= 0", "X"), "I-ISOL", v.fi.short, a, "complementary", "isolates and non_isolates are not the zero / non-zero rows of the same count vector", loc(v.fi, v.fi.node))
            elif "!= 0" in a and "== 0" in b:
                res.violation("I-ISOL", v.fi.short, a, "complementary", "isolates are the NON-zero rows and non_isolates the zero rows: the two sets are exchanged", loc(v.fi, v.fi.node))
            else:
                res.unknown("I-ISOL", v.fi.short, a, "complementary", "zero / non-zero tests of the count vector not recognised", loc(v.fi, v.fi.node))
            if "self.incidence" in a or "self.binary_incidence" in a:
                res.ok("I-ISOL", v.fi.short, a, "from-incidence", loc(v.fi, v.fi.node))
            else:
                # node LABELS (anything obtained from the hypergraph object) are not row indices of the incidence matrix
                hg_params = [p_.arg for p_ in v.fi.params if p_.arg not in ("self",)]
                from_labels = any(t in a for t in ("get_nodes", "degree", "isolated_nodes", "get_neighbors")) or any((h + ".") in a for h in hg_params)
                res.add("I-ISOL", v.fi.short, a, "from-incidence", "violation" if from_labels and "transform(" not in a else "unknown", "isolated nodes are taken from the hypergraph's node labels, not from the rows of the incidence matrix: with labels other than 0..N-1 the wrong rows are dropped", loc(v.fi, v.fi.node))
    with res.guard("N-LAGRANGE"):
        check_lagrange(ctx, res)
    with res.guard("I-DENSESIZES"):
        check_dense_sizes(ctx, res)
    with res.guard("M-SHAPE (shared with C09): N and the isolated nodes are read off the incidence matrix"):
        from .c09 import check_incidence_shape

        check_incidence_shape(ctx, res)
    res.assumptions += ["scipy.sparse.csr_array is introspected on a 1x1 instance of the installed library (trusted base)", "sklearn KMeans with a fixed random_state is deterministic (library)"]
    with res.guard("general lint pack over the property's files"):
        from ..lints import check_pack

        check_pack(ctx, res, "C17")
    return res


def check_lagrange(ctx, res, rule="N-LAGRANGE"):
    """normalizeU: the multiplier lambda_i = enforce_constraint_u(num, den) solves sum_k num_k / (lambda + den_k) = 1; the rows sum
    to one only if the membership is then num / (lambda_i + den) with THE SAME den (every additive term - the regulariser gammaU
    included - on both sides).  Decided on the additive terms of the two expressions along the path through the call."""
    res.rules[rule] = "the denominator the membership row is divided by is `lambda_i + den` for exactly the `den` that was handed to enforce_constraint_u (same additive terms, regulariser included)"
    n_calls = 0
    for fi in [f for f in ctx.prog.functions.values() if f.cls is not None and f.cls.name == "HypergraphMT"]:
        calls = [c for c in walk_no_nested(fi.node) if isinstance(c, ast.Call) and isinstance(c.func, ast.Attribute) and c.func.attr == "enforce_constraint_u" and len(c.args) == 2]
        if not calls:
            continue
        v = ctx.view(fi)

        def defs_of(name):
            return [a for a in walk_no_nested(fi.node) if isinstance(a, ast.Assign) and len(a.targets) == 1 and isinstance(a.targets[0], ast.Name) and a.targets[0].id == name]

        def all_stores(name):
            return [x for x in ast.walk(fi.node) if isinstance(x, ast.Name) and isinstance(x.ctx, ast.Store) and x.id == name]

        def reaching_defs(name, use_id):
            ds = defs_of(name)
            if len(ds) != len(all_stores(name)):
                return None  # loop targets, augmented assignments, unpackings: not expanded
            ids = {id(d): v.cfg_id(d) for d in ds}
            out = []
            for d in ds:
                did = ids[id(d)]
                if did is None:
                    return None
                others = {i for k, i in ids.items() if k != id(d) and i is not None and i != use_id}
                if did != use_id and v.cfg.reaches_without(did, use_id, others - {did}):
                    out.append(d)
                elif did == use_id and v.cfg.reaches_without(did, use_id, others):
                    out.append(d)  # carried round a loop into its own right-hand side
            return out

        def expand(e, use_id, through, depth=0):
            """additive terms of `e` as evaluated at CFG node use_id on a path that runs through the CFG node `through`"""
            if isinstance(e, ast.BinOp) and isinstance(e.op, ast.Add):
                return expand(e.left, use_id, through, depth) + expand(e.right, use_id, through, depth)
            if isinstance(e, ast.Name) and depth < 6:
                rd = reaching_defs(e.id, use_id)
                if rd:
                    rd = [d for d in rd if v.cfg_id(d) != use_id] or rd
                    if len(rd) > 1 and through is not None:
                        # the definition that lies on the path through the call: the call's own statement, or one reached from it
                        on = [d for d in rd if v.cfg_id(d) == through or v.cfg.reaches_without(through, v.cfg_id(d), {use_id})]
                        # ... and of those the ones NOT by-passed: a definition before the call that the path redefines is dropped
                        if len(on) >= 1:
                            late = [d for d in on if not any(o is not d and v.cfg.reaches_without(v.cfg_id(d), v.cfg_id(o), {use_id}) and v.cfg.reaches_without(v.cfg_id(o), use_id, {v.cfg_id(d)}) for o in on)]
                            rd = late or on
                    if len(rd) == 1:
                        return expand(rd[0].value, v.cfg_id(rd[0]), through, depth + 1)
            return [e]

        for c in calls:
            n_calls += 1
            cid = v.cfg_id(c)
            den_terms = sorted(norm(t) for t in expand(c.args[1], cid, None))
            num = norm(c.args[0])
            divs = []
            for st in walk_no_nested(fi.node):
                if isinstance(st, ast.Assign) and isinstance(st.value, ast.BinOp) and isinstance(st.value.op, ast.Div) and norm(st.value.left) == num and isinstance(st.targets[0], ast.Subscript):
                    sid = v.cfg_id(st)
                    if sid is not None and cid is not None and (v.cfg.reaches_without(cid, sid, set())):
                        divs.append(st)
            decided = False
            for st in divs:
                sid = v.cfg_id(st)
                terms = expand(st.value.right, sid, cid)
                lam = [t for t in terms if any(x is c or (isinstance(x, ast.Call) and isinstance(x.func, ast.Attribute) and x.func.attr == "enforce_constraint_u") for x in ast.walk(t))]
                if len(lam) != 1 or not isinstance(lam[0], ast.Call):
                    continue
                rest = sorted(norm(t) for t in terms if t is not lam[0])
                decided = True
                if rest == den_terms:
                    res.ok(rule, fi.short, norm(st)[:100], "same-denominator", loc(fi, st))
                else:
                    extra = [t for t in rest if t not in den_terms] + ["(missing) " + t for t in den_terms if t not in rest]
                    res.violation(rule, fi.short, norm(st)[:100], "same-denominator", f"the multiplier was solved for the denominator `{' + '.join(den_terms)[:80]}` but the row is divided by lambda + `{' + '.join(rest)[:80]}` (differs by {', '.join(extra)[:80]}): with normalizeU the non-zero rows no longer sum to one", loc(fi, st))
            if not decided:
                res.unknown(rule, fi.short, norm(c)[:100], "same-denominator", "the division that uses the multiplier was not recognised as `num / (lambda + den)`", loc(fi, c))
    if n_calls == 0:
        res.unknown(rule, "HypergraphMT", "enforce_constraint_u(num, den)", "same-denominator", "no call of enforce_constraint_u found", "hypergraphx/communities/hypergraph_mt/model.py")


def check_dense_sizes(ctx, res, rule="I-DENSESIZES"):
    """HyD2eId (hyperedge ids per size) is consumed BY POSITION: position d stands for size d + 2 and selects row d of `w` and of the
    psi matrices.  That holds only if the list has one slot - possibly empty - for EVERY size 2..D.  A list with one slot per
    OBSERVED size (np.unique / set of the sizes) shifts every size above a gap into the row of a smaller one."""
    res.rules[rule] = "the per-size lists of hyperedge ids have one slot for every size 2..D (built over a range), not one per observed size, because their positions are used as row indices of w"
    mod = ctx.require("HypergraphMT.fit").module
    builders = []
    for fi in ctx.prog.functions.values():
        if fi.module is not mod:
            continue
        for comp in [n for n in ast.walk(fi.node) if isinstance(n, ast.ListComp) and len(n.generators) == 1]:
            g = comp.generators[0]
            if not isinstance(g.target, ast.Name):
                continue
            # [ ... np.where(SIZES == d) ... for d in <sizes> ]
            if any(isinstance(c, ast.Compare) and len(c.ops) == 1 and isinstance(c.ops[0], ast.Eq) and any(isinstance(x, ast.Name) and x.id == g.target.id for x in (c.left, c.comparators[0])) for c in ast.walk(comp.elt)) and any(isinstance(x, ast.Call) and norm(x.func).endswith("where") for x in ast.walk(comp.elt)):
                builders.append((fi, comp, g))
    if not builders:
        res.unknown(rule, "hypergraph_mt.model", "[np.where(HyeId2D == d)[0] for d in ...]", "every-size", "the construction of the per-size hyperedge lists was not recognised", mod.relpath)
        return
    # positional consumers: enumerate(self.HyD2eId) / self.HyD2eId[d]
    positional = []
    for fi in ctx.prog.functions.values():
        if fi.module is mod:
            for n in ast.walk(fi.node):
                if isinstance(n, ast.Call) and isinstance(n.func, ast.Name) and n.func.id == "enumerate" and n.args and isinstance(n.args[0], ast.Attribute) and "D2eId" in n.args[0].attr:
                    positional.append(n)
                if isinstance(n, ast.Subscript) and isinstance(n.value, ast.Attribute) and "D2eId" in n.value.attr and isinstance(n.slice, ast.Name):
                    positional.append(n)
    for fi, comp, g in builders:
        v = ctx.view(fi)
        it = v.inline(g.iter, depth=3)
        calls = [norm(x.func).split(".")[-1] for x in ast.walk(it) if isinstance(x, ast.Call)]
        if calls and calls[0] in ("arange", "range"):
            res.ok(rule, fi.short, norm(comp)[:100], "every-size", loc(fi, comp))
        elif any(c in ("unique", "set", "Counter", "keys", "nonzero", "flatnonzero") for c in calls):
            if positional:
                res.violation(rule, fi.short, norm(comp)[:100], "every-size", f"the per-size lists are built over `{norm(it)[:50]}` - the sizes that OCCUR - while `{norm(positional[0])[:50]}` uses a position in the list as `size - 2`: when a size between 2 and D has no hyperedge, the statistics of every larger size update the wrong row of w (the update is no longer the M-step; the likelihood can decrease)", loc(fi, comp))
            else:
                res.unknown(rule, fi.short, norm(comp)[:100], "every-size", "built over the observed sizes; no positional consumer recognised", loc(fi, comp))
        else:
            res.unknown(rule, fi.short, norm(comp)[:100], "every-size", f"the population of sizes (`{norm(it)[:50]}`) was not recognised", loc(fi, comp))

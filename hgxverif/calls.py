"""Call / attribute conformance rules (DESIGN 2.E): C-ATTR and C-EXT (C-SIG lives in the interpreter)."""
from __future__ import annotations

import ast
import importlib

from .model import is_self_attr, loc, norm
from .report import Result


def check_self_attrs(ctx, res: Result, cls_name: str, rule="C-ATTR"):
    """Every `self.X` read in the class names an attribute assigned somewhere in the class, a method, a property or a
    class variable."""
    ci = ctx.prog.cls(cls_name)
    known = ci.all_self_attrs()
    # attributes created by name: `setattr(self, <name>, value)` / `self.__dict__[...] = ` / `vars(self).update(...)`.  A
    # constant name is a definition like any other; a computed one opens the world (the names may sit in a table)
    dynamic = False
    # a base class that is not a repository class (or could not be told apart) may define anything
    resolved = {b.name for b in ci.base_nodes}
    if any(b.split(".")[-1] not in resolved and b.split(".")[-1] not in ("object", "Generic", "Protocol", "ABC") for b in ci.bases):
        dynamic = True
    for m in ci.methods.values():
        for n in ast.walk(m.node):
            if isinstance(n, ast.Call) and isinstance(n.func, ast.Name) and n.func.id == "setattr" and len(n.args) >= 2 and isinstance(n.args[0], ast.Name) and n.args[0].id == "self":
                if isinstance(n.args[1], ast.Constant) and isinstance(n.args[1].value, str):
                    known = set(known) | {n.args[1].value}
                else:
                    dynamic = True
            if isinstance(n, ast.Attribute) and n.attr == "__dict__" and isinstance(n.value, ast.Name) and n.value.id == "self":
                dynamic = True
            if isinstance(n, ast.Call) and isinstance(n.func, ast.Name) and n.func.id == "vars" and n.args and isinstance(n.args[0], ast.Name) and n.args[0].id == "self":
                dynamic = True
    table_names = set()
    if dynamic:
        table_names = {x.value for x in ast.walk(ci.module.tree) if isinstance(x, ast.Constant) and isinstance(x.value, str) and x.value.isidentifier()}
    n_reads = 0
    for m in ci.methods.values():
        for n in ast.walk(m.node):
            if isinstance(n, ast.Attribute) and isinstance(n.ctx, ast.Load) and isinstance(n.value, ast.Name) and n.value.id == "self":
                if n.attr.startswith("__") and n.attr.endswith("__"):
                    continue
                n_reads += 1
                if n.attr not in known:
                    if dynamic:
                        res.unknown(rule, m.short, norm(n), n.attr, f"`self.{n.attr}` has no plain assignment; the class creates attributes by computed name (setattr)" + (" and a table of the module lists this name" if n.attr in table_names else ""), loc(m, n))
                    else:
                        res.violation(rule, m.short, norm(n), n.attr, f"`self.{n.attr}` is read but {cls_name} never defines it (AttributeError when this line runs)", loc(m, n))
    res.ok(rule, cls_name, f"{n_reads} self-attribute reads resolve", "scan", ci.module.relpath)
    return n_reads


def check_external_methods(ctx, res: Result, cls_name: str, receivers, module: str, ext_cls: str, rule="C-EXT"):
    """Attributes / methods used on values that are instances of an installed third-party class must exist on it
    (library introspection on a tiny instance with hasattr - the library, never the repository, is imported)."""
    ci = ctx.prog.cls(cls_name)
    try:
        klass = getattr(importlib.import_module(module), ext_cls)
        probe = klass((1, 1))
    except Exception as e:  # pragma: no cover
        res.unknown(rule, cls_name, f"{module}.{ext_cls}", "import", f"cannot introspect {module}.{ext_cls}: {e}", ci.module.relpath)
        return 0
    n = 0
    for m in ci.methods.values():
        for node in ast.walk(m.node):
            if isinstance(node, ast.Attribute) and isinstance(node.ctx, ast.Load) and norm(node.value) in receivers:
                n += 1
                res.check(hasattr(probe, node.attr), rule, m.short, norm(node), f"{ext_cls}.{node.attr}", f"`{node.attr}` does not exist on the installed {module}.{ext_cls}: AttributeError before any computation", loc(m, node))
    return n

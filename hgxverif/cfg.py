"""Per-function control-flow graph over the statement vocabulary used by hypergraphx.

One node per simple statement, per branch condition (If / While test), per loop head (For), per
with-enter and per except-handler entry, plus ENTRY, EXIT (normal return) and RAISE (exceptional exit).
Edges carry a label: next, T, F, iter (loop body), done (loop exhausted), exc (into a handler),
ret, raise, break, continue.  `assert` is a plain statement (asserts are not rejections, DESIGN 2.A).
Implicit exceptions are modelled only inside `try` bodies (every node of the body may jump to each handler).
"""
from __future__ import annotations

import ast
from dataclasses import dataclass
from typing import Dict, List, Optional, Tuple

import networkx as nx

from .model import AnalysisError


@dataclass
class CNode:
    id: int
    kind: str  # entry | exit | raise | stmt | test | for | with | except
    ast: Optional[ast.AST] = None
    owner: Optional[ast.AST] = None  # the If/While/For/Try statement a test/for/except node belongs to

    @property
    def lineno(self):
        return getattr(self.ast, "lineno", None)


class CFG:
    def __init__(self, fn: ast.AST):
        self.fn = fn
        self.g = nx.DiGraph()
        self.nodes: Dict[int, CNode] = {}
        self._n = 0
        self.entry = self._new("entry").id
        self.exit = self._new("exit").id
        self.raise_exit = self._new("raise").id
        self.by_ast: Dict[int, int] = {}  # id(ast stmt/test) -> node id
        self._loop_stack: List[Tuple[int, List[Tuple[int, str]]]] = []  # (head, break-exits)
        self._try_stack: List[List[int]] = []  # handler entry ids of enclosing try bodies
        body = fn.body if isinstance(fn.body, list) else [ast.Return(value=fn.body)]
        exits = self._block(body, [(self.entry, "next")])
        self._connect(exits, self.exit)
        self._dom = None
        self._pdom = None

    # ----------------------------------------------------------------- building
    def _new(self, kind, node=None, owner=None) -> CNode:
        c = CNode(self._n, kind, node, owner)
        self.nodes[self._n] = c
        self.g.add_node(self._n)
        self._n += 1
        if node is not None:
            self.by_ast.setdefault(id(node), c.id)
        return c

    def _edge(self, a, b, label):
        # nx.DiGraph keeps one edge per pair: keep a set of labels
        if self.g.has_edge(a, b):
            self.g[a][b]["labels"].add(label)
        else:
            self.g.add_edge(a, b, labels={label})

    def _connect(self, preds, target):
        for p, lab in preds:
            self._edge(p, target, lab)

    def _maybe_exc(self, nid):
        if self._try_stack:
            for h in self._try_stack[-1]:
                self._edge(nid, h, "exc")

    def _block(self, stmts, preds):
        for st in stmts:
            if not preds:
                # unreachable code: still build it so that anchors exist, but leave it disconnected
                preds = []
            preds = self._stmt(st, preds)
        return preds

    def _stmt(self, st, preds):
        if isinstance(st, (ast.FunctionDef, ast.AsyncFunctionDef, ast.ClassDef)):
            n = self._new("stmt", st)
            self._connect(preds, n.id)
            return [(n.id, "next")]
        if isinstance(st, ast.If):
            t = self._new("test", st.test, st)
            self.by_ast[id(st)] = t.id
            self._connect(preds, t.id)
            self._maybe_exc(t.id)
            a = self._block(st.body, [(t.id, "T")])
            b = self._block(st.orelse, [(t.id, "F")]) if st.orelse else [(t.id, "F")]
            return a + b
        if hasattr(ast, "Match") and isinstance(st, ast.Match):
            t = self._new("test", st.subject, st)
            self.by_ast[id(st)] = t.id
            self._connect(preds, t.id)
            self._maybe_exc(t.id)
            outs = []
            irrefutable = False
            for case in st.cases:
                outs += self._block(case.body, [(t.id, "T")])
                if case.guard is None and isinstance(case.pattern, ast.MatchAs) and case.pattern.pattern is None:
                    irrefutable = True
            if not irrefutable:
                outs.append((t.id, "F"))
            return outs
        if isinstance(st, ast.While):
            t = self._new("test", st.test, st)
            self.by_ast[id(st)] = t.id
            self._connect(preds, t.id)
            self._maybe_exc(t.id)
            self._loop_stack.append((t.id, []))
            body_exits = self._block(st.body, [(t.id, "T")])
            self._connect(body_exits, t.id)
            _, breaks = self._loop_stack.pop()
            const_true = isinstance(st.test, ast.Constant) and bool(st.test.value) is True
            out = [] if const_true else [(t.id, "F")]
            if st.orelse:
                out = self._block(st.orelse, out)
            return out + breaks
        if isinstance(st, (ast.For, ast.AsyncFor)):
            h = self._new("for", st, st)
            self._connect(preds, h.id)
            self._maybe_exc(h.id)
            self._loop_stack.append((h.id, []))
            body_exits = self._block(st.body, [(h.id, "iter")])
            self._connect(body_exits, h.id)
            _, breaks = self._loop_stack.pop()
            out = [(h.id, "done")]
            if st.orelse:
                out = self._block(st.orelse, out)
            return out + breaks
        if isinstance(st, (ast.With, ast.AsyncWith)):
            w = self._new("with", st, st)
            self._connect(preds, w.id)
            self._maybe_exc(w.id)
            return self._block(st.body, [(w.id, "next")])
        if isinstance(st, ast.Try):
            handlers = []
            for h in st.handlers:
                hn = self._new("except", h, st)
                handlers.append(hn.id)
            self._try_stack.append(handlers)
            body_exits = self._block(st.body, preds)
            self._try_stack.pop()
            if st.orelse:
                body_exits = self._block(st.orelse, body_exits)
            outs = list(body_exits)
            for h, hid in zip(st.handlers, handlers):
                outs += self._block(h.body, [(hid, "next")])
            if st.finalbody:
                outs = self._block(st.finalbody, outs)
            return outs
        if isinstance(st, ast.Return):
            n = self._new("stmt", st)
            self._connect(preds, n.id)
            self._maybe_exc(n.id)
            self._edge(n.id, self.exit, "ret")
            return []
        if isinstance(st, ast.Raise):
            n = self._new("stmt", st)
            self._connect(preds, n.id)
            if self._try_stack:
                self._maybe_exc(n.id)
            self._edge(n.id, self.raise_exit, "raise")
            return []
        if isinstance(st, ast.Break):
            n = self._new("stmt", st)
            self._connect(preds, n.id)
            if not self._loop_stack:
                raise AnalysisError("break outside loop")
            self._loop_stack[-1][1].append((n.id, "break"))
            return []
        if isinstance(st, ast.Continue):
            n = self._new("stmt", st)
            self._connect(preds, n.id)
            if not self._loop_stack:
                raise AnalysisError("continue outside loop")
            self._edge(n.id, self._loop_stack[-1][0], "continue")
            return []
        if isinstance(
            st,
            (
                ast.Assign,
                ast.AugAssign,
                ast.AnnAssign,
                ast.Expr,
                ast.Assert,
                ast.Delete,
                ast.Pass,
                ast.Nonlocal,
                ast.Global,
                ast.Import,
                ast.ImportFrom,
            ),
        ):
            n = self._new("stmt", st)
            self._connect(preds, n.id)
            self._maybe_exc(n.id)
            return [(n.id, "next")]
        raise AnalysisError(f"CFG: unsupported statement {type(st).__name__} at line {getattr(st, 'lineno', '?')}")

    # ------------------------------------------------------------------ queries
    def node_of(self, a: ast.AST) -> int:
        nid = self.by_ast.get(id(a))
        if nid is None:
            raise AnalysisError(f"CFG: no node for {type(a).__name__} at line {getattr(a, 'lineno', '?')}")
        return nid

    def stmt_nodes(self):
        return [n for n in self.nodes.values() if n.kind in ("stmt", "test", "for", "with", "except")]

    def dominators(self) -> Dict[int, int]:
        if self._dom is None:
            self._dom = nx.immediate_dominators(self.g, self.entry)
        return self._dom

    def dominates(self, a: int, b: int) -> bool:
        """a dominates b (every path entry->b passes a)."""
        idom = self.dominators()
        if b not in idom:
            return False  # unreachable
        cur = b
        while True:
            if cur == a:
                return True
            nxt = idom.get(cur)
            if nxt is None or nxt == cur:
                return cur == a
            cur = nxt

    def reachable(self, a: int, b: int) -> bool:
        return b in nx.descendants(self.g, a) or a == b

    def reaches_without(self, a: int, b: int, avoid: set) -> bool:
        """Is there a path a -> ... -> b that does not pass through any node in `avoid` (a and b excluded)?"""
        seen = {a}
        todo = [a]
        while todo:
            x = todo.pop()
            for y in self.g.successors(x):
                if y == b:
                    return True
                if y in seen or y in avoid:
                    continue
                seen.add(y)
                todo.append(y)
        return False

    def edge_labels(self, a, b):
        return self.g[a][b]["labels"]

    def succ(self, a, label=None):
        out = []
        for b in self.g.successors(a):
            if label is None or label in self.g[a][b]["labels"]:
                out.append(b)
        return out

    def branch_dominated(self, test_id: int, label: str, b: int) -> bool:
        """Every path from entry to b goes through the `label` edge out of test node `test_id`."""
        if not self.dominates(test_id, b):
            return False
        # remove the label-edges out of test_id: b must become unreachable from entry *through test_id*;
        # equivalently: b is not reachable from test_id via its other out-edges without re-entering test_id
        others = [s for s in self.g.successors(test_id) if self.g[test_id][s]["labels"] - {label}]
        only = [s for s in self.g.successors(test_id) if label in self.g[test_id][s]["labels"]]
        if not only:
            return False
        for o in others:
            if o == b:
                # b reachable directly by another label (can only be legit if b is also the `label` successor)
                return False
            if self._reach_avoiding(o, b, {test_id}):
                return False
        return True

    def _reach_avoiding(self, a, b, avoid):
        if a == b:
            return True
        seen = {a}
        todo = [a]
        while todo:
            x = todo.pop()
            for y in self.g.successors(x):
                if y in avoid or y in seen:
                    continue
                if y == b:
                    return True
                seen.add(y)
                todo.append(y)
        return False

"""Truth tables of small comparison predicates.

A guard such as `2 <= size <= bound`, `size >= 2 and size <= bound` or `size < 2 or size > bound` (negated, with an early
`continue`) touches its variables only through integer comparisons, so its meaning is a finite table over a small
integer grid.  The table is computed by structural recursion over the expression (no code is executed); two spellings are
the same guard iff their tables agree."""
from __future__ import annotations

import ast
import itertools
from typing import Dict, Optional, Sequence, Tuple

_CMP = {
    ast.Lt: lambda a, b: a < b,
    ast.LtE: lambda a, b: a <= b,
    ast.Gt: lambda a, b: a > b,
    ast.GtE: lambda a, b: a >= b,
    ast.Eq: lambda a, b: a == b,
    ast.NotEq: lambda a, b: a != b,
}


class NotTabular(Exception):
    pass


def _val(e, env):
    if isinstance(e, ast.Constant) and isinstance(e.value, int) and not isinstance(e.value, bool):
        return e.value
    if isinstance(e, ast.Name) and e.id in env:
        return env[e.id]
    if isinstance(e, ast.BinOp) and isinstance(e.op, (ast.Add, ast.Sub, ast.Mult, ast.FloorDiv)):
        a, b = _val(e.left, env), _val(e.right, env)
        if isinstance(e.op, ast.Add):
            return a + b
        if isinstance(e.op, ast.Sub):
            return a - b
        if isinstance(e.op, ast.Mult):
            return a * b
        if b == 0:
            raise NotTabular("division by zero")
        return a // b
    if isinstance(e, ast.BinOp) and isinstance(e.op, ast.Div):
        a, b = _val(e.left, env), _val(e.right, env)
        if b == 0:
            raise NotTabular("division by zero")
        return a / b
    if isinstance(e, ast.UnaryOp) and isinstance(e.op, ast.USub):
        return -_val(e.operand, env)
    raise NotTabular(ast.dump(e)[:60])


def _truth(e, env) -> bool:
    if isinstance(e, ast.BoolOp):
        vals = [_truth(x, env) for x in e.values]
        return all(vals) if isinstance(e.op, ast.And) else any(vals)
    if isinstance(e, ast.UnaryOp) and isinstance(e.op, ast.Not):
        return not _truth(e.operand, env)
    if isinstance(e, ast.Compare):
        left = _val(e.left, env)
        for op, c in zip(e.ops, e.comparators):
            f = _CMP.get(type(op))
            if f is None:
                raise NotTabular(type(op).__name__)
            right = _val(c, env)
            if not f(left, right):
                return False
            left = right
        return True
    if isinstance(e, ast.Constant) and isinstance(e.value, bool):
        return e.value
    raise NotTabular(type(e).__name__)


def table(test: ast.AST, names: Sequence[str], lo: int = -1, hi: int = 7) -> Optional[Dict[Tuple[int, ...], bool]]:
    """truth table of `test` over names in lo..hi, or None when the expression is not a pure comparison predicate of
    exactly these names"""
    used = {x.id for x in ast.walk(test) if isinstance(x, ast.Name)}
    if not used <= set(names):
        return None
    out = {}
    try:
        for vals in itertools.product(range(lo, hi + 1), repeat=len(names)):
            out[vals] = _truth(test, dict(zip(names, vals)))
    except NotTabular:
        return None
    return out


def same(test: ast.AST, names: Sequence[str], ref) -> Optional[str]:
    """'T' when test == ref everywhere, 'F' when test == not ref everywhere, 'other' when neither, None when the test is
    not tabular.  `ref` is a Python callable over the names (the intended guard)."""
    t = table(test, names)
    if t is None:
        return None
    eq = all(v == bool(ref(*k)) for k, v in t.items())
    ne = all(v != bool(ref(*k)) for k, v in t.items())
    return "T" if eq else ("F" if ne else "other")

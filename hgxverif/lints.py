"""Small positive-pattern rules shared by several properties: each reports a construct that is wrong whenever it occurs
in the anchored code (never the absence of something)."""
from __future__ import annotations

import ast

from .model import loc, norm, walk_no_nested
from .report import Result


def check_groupby_sorted(ctx, res: Result, dotted: str, rule="G-GROUPBY"):
    """itertools.groupby only merges CONSECUTIVE items: grouping records by a key needs an input sorted by that key.
    Reported: groupby over an iterable that is not `sorted(..., key=<same key>)` (or sorted without key when the
    grouping key is the first component)."""
    v = ctx.view(dotted)
    f = v.fi.short
    found = 0
    for n in ast.walk(v.fi.node):
        if isinstance(n, ast.Call) and norm(n.func) in ("groupby", "itertools.groupby") and n.args:
            found += 1
            it = v.inline(n.args[0])
            key = n.args[1] if len(n.args) > 1 else next((k.value for k in n.keywords if k.arg == "key"), None)
            is_sorted = isinstance(it, ast.Call) and norm(it.func) == "sorted"
            if is_sorted:
                skey = next((k.value for k in it.keywords if k.arg == "key"), None)
                same = (skey is None and key is None) or (skey is not None and key is not None and norm(skey) == norm(key)) or (skey is None and key is not None and isinstance(key, ast.Lambda) and isinstance(key.body, ast.Subscript) and isinstance(key.body.slice, ast.Constant) and key.body.slice.value == 0)
                res.add(rule, f, norm(n)[:140], "sorted-input", "ok" if same else "unknown", "" if same else "the input is sorted by another key than the grouping key", loc(v.fi, n))
            elif getattr(v.kind(n.args[0]), "sorted", False) and (key is None or (isinstance(key, ast.Lambda) and isinstance(key.body, ast.Subscript) and isinstance(key.body.slice, ast.Constant) and key.body.slice.value == 0)):
                res.ok(rule, f, norm(n)[:140], "sorted-input", loc(v.fi, n))
            elif isinstance(it, ast.Name) and it.id in {a.arg for a in v.fi.params}:
                res.unknown(rule, f, norm(n)[:140], "sorted-input", "the grouped iterable is a parameter: whether the callers hand it over sorted is not decided", loc(v.fi, n))
            else:
                res.violation(rule, f, norm(n)[:140], "sorted-input", f"groupby runs over `{norm(it)[:80]}`, which is not sorted by the grouping key: records with the same key that are not adjacent form several groups (a later group overwrites / duplicates an earlier one)", loc(v.fi, n))
    # the same grouping written with numpy: run boundaries of a key column (`np.flatnonzero(np.diff(keys)) + 1`) delimit the
    # groups only when the records are sorted by that key
    for n in ast.walk(v.fi.node):
        if not (isinstance(n, ast.Call) and norm(n.func) in ("np.diff", "numpy.diff") and n.args):
            continue
        par = v.parent.get(id(n))
        boundary = (isinstance(par, ast.Call) and norm(par.func) in ("np.flatnonzero", "np.nonzero", "np.where", "numpy.flatnonzero", "numpy.nonzero", "numpy.where", "np.argwhere")) or (isinstance(par, ast.Compare) and any(isinstance(c, ast.Constant) and c.value == 0 for c in par.comparators))
        if isinstance(par, ast.Compare):
            gp = v.parent.get(id(par))
            boundary = boundary and isinstance(gp, ast.Call) and norm(gp.func) in ("np.flatnonzero", "np.nonzero", "np.where", "numpy.flatnonzero", "numpy.nonzero", "numpy.where", "np.argwhere")
        if not boundary:
            continue
        col = v.inline(n.args[0], depth=2)
        # the column is built by iterating a record list: np.fromiter((t for t, _ in L), ...) / np.array([r[0] for r in L])
        src = None
        if isinstance(col, ast.Call) and norm(col.func) in ("np.fromiter", "np.array", "np.asarray", "numpy.fromiter", "numpy.array", "numpy.asarray") and col.args and isinstance(col.args[0], (ast.GeneratorExp, ast.ListComp)) and len(col.args[0].generators) == 1:
            src = col.args[0].generators[0].iter
        if src is None:
            continue
        found += 1
        it = v.inline(src)
        if (isinstance(it, ast.Call) and norm(it.func) == "sorted") or getattr(v.kind(src), "sorted", False):
            res.ok(rule, f, norm(n)[:140], "sorted-input", loc(v.fi, n))
        elif isinstance(it, ast.Name) and it.id in {a.arg for a in v.fi.params}:
            res.unknown(rule, f, norm(n)[:140], "sorted-input", "the grouped records are a parameter: whether the callers hand them over sorted is not decided", loc(v.fi, n))
        else:
            res.violation(rule, f, norm(n)[:140], "sorted-input", f"run boundaries of a key column taken from `{norm(it)[:80]}` are used as group boundaries, but those records are not sorted by the key: records with the same key that are not adjacent form several groups (a later group overwrites / duplicates an earlier one)", loc(v.fi, n))
    if not found:
        res.ok(rule, f, "no itertools.groupby", "scan", loc(v.fi, v.fi.node))


def check_fancy_augassign(ctx, res: Result, dotted: str, rule="N-FANCYAUG"):
    """`A[rows, cols] += v` with ARRAY-valued indices does not accumulate repeated index pairs (numpy buffers the
    update): a vectorised count / weight accumulation must use np.add.at.  Reported: an augmented assignment whose
    subscript contains an index that is itself an array slice (`X[:, i]`) or an array built by np.array / asarray."""
    v = ctx.view(dotted)
    f = v.fi.short
    found = 0
    arrays = {n.targets[0].id for n in walk_no_nested(v.fi.node) if isinstance(n, ast.Assign) and isinstance(n.targets[0], ast.Name) and isinstance(n.value, ast.Call) and norm(n.value.func) in ("np.array", "np.asarray", "numpy.array", "numpy.asarray", "np.fromiter", "np.concatenate", "np.nonzero", "np.where", "np.arange")}
    for n in walk_no_nested(v.fi.node):
        if isinstance(n, ast.AugAssign) and isinstance(n.target, ast.Subscript):
            idx = n.target.slice.elts if isinstance(n.target.slice, ast.Tuple) else [n.target.slice]

            def is_arrayish(x, depth=0):
                """an index that is itself an array: a slice of an array, an np constructor, or a reshaping of one of these"""
                if isinstance(x, ast.Subscript) and (isinstance(x.slice, ast.Slice) or (isinstance(x.slice, ast.Tuple) and any(isinstance(e, ast.Slice) for e in x.slice.elts))):
                    return True
                if isinstance(x, ast.Call) and norm(x.func) in ("np.array", "np.asarray", "numpy.array", "numpy.asarray", "np.fromiter", "np.concatenate", "np.nonzero", "np.where", "np.arange", "np.repeat", "np.tile", "np.triu_indices", "np.tril_indices", "np.meshgrid", "np.indices"):
                    return True
                if isinstance(x, ast.Call) and isinstance(x.func, ast.Attribute) and x.func.attr in ("ravel", "flatten", "reshape", "astype", "copy", "squeeze", "transpose") and depth < 4:
                    return is_arrayish(x.func.value, depth + 1)
                if isinstance(x, ast.Attribute) and x.attr == "T" and depth < 4:
                    return is_arrayish(x.value, depth + 1)
                if isinstance(x, ast.Name):
                    if x.id in arrays:
                        return True
                    if depth < 4:
                        r_ = v.resolve(x)
                        if r_ is not x:
                            return is_arrayish(r_, depth + 1)
                        # an element of a tuple assignment `rows, cols = A[:, i].ravel(), A[:, j].ravel()` / `i, j = np.triu_indices(..)`
                        for d_ in walk_no_nested(v.fi.node):
                            if isinstance(d_, ast.Assign) and len(d_.targets) == 1 and isinstance(d_.targets[0], (ast.Tuple, ast.List)):
                                names_ = [t_.id if isinstance(t_, ast.Name) else None for t_ in d_.targets[0].elts]
                                if x.id in names_:
                                    if isinstance(d_.value, (ast.Tuple, ast.List)) and len(d_.value.elts) == len(names_):
                                        return is_arrayish(d_.value.elts[names_.index(x.id)], depth + 1)
                                    return is_arrayish(d_.value, depth + 1)
                return False

            arrayish = [x for x in idx if is_arrayish(x)]
            if arrayish:
                found += 1
                res.violation(rule, f, norm(n), "repeated-indices", f"`{norm(n.target)}` is indexed with arrays: `{type(n.op).__name__.lower()}=` through fancy indexing writes each repeated index pair once instead of accumulating (use np.add.at)", loc(v.fi, n))
    if not found:
        res.ok(rule, f, "no augmented assignment through array indices", "scan", loc(v.fi, v.fi.node))


def check_groupby_in_file(ctx, res: Result, relpath: str, rule="G-GROUPBY"):
    """G-GROUPBY over every function of one source file (one `scan` obligation when the file has no groupby at all)."""
    n = 0
    for q, fi in sorted(ctx.prog.functions.items()):
        if fi.module.relpath != relpath:
            continue
        if any(isinstance(x, ast.Call) and norm(x.func) in ("groupby", "itertools.groupby", "np.diff", "numpy.diff") for x in walk_no_nested(fi.node)):
            n += 1
            check_groupby_sorted(ctx, res, fi, rule=rule)
    if not n:
        res.ok(rule, relpath, "no itertools.groupby", "scan", relpath)


def _break_conditions(v, brk, loop):
    """tests (as written) on which reaching `brk` inside `loop` depends"""
    tests = []
    cur = brk
    while cur is not None and cur is not loop:
        par = v.parent.get(id(cur))
        if isinstance(par, ast.If) and cur is not par.test:
            tests.append(par.test)
            # an `elif` arm also depends on the failed tests before it
        cur = par
    return tests


def check_scan_break(ctx, res: Result, dotted, filter_names=("order", "size", "up_to"), rule="B-SCANBREAK"):
    """A loop that collects the records matching a window AND a size / order filter may stop early on the sort key only: a
    `break` whose condition involves the size filter stops the scan at the first record of another size and drops every
    later match."""
    v = ctx.view(dotted)
    f = v.fi.short
    local_defs = {n.name: n for n in ast.walk(v.fi.node) if isinstance(n, (ast.FunctionDef, ast.Lambda)) and n is not v.fi.node and hasattr(n, "name")}
    found = 0

    def mentions_filter(e, depth=0):
        e = v.inline(e)
        for x in ast.walk(e):
            if isinstance(x, ast.Name) and x.id in filter_names:
                return True
            if isinstance(x, ast.Call) and isinstance(x.func, ast.Name) and x.func.id in local_defs and depth < 2:
                d = local_defs[x.func.id]
                if any(isinstance(y, ast.Name) and y.id in filter_names for y in ast.walk(d)):
                    return True
        return False

    for lp in ast.walk(v.fi.node):
        if not isinstance(lp, (ast.For, ast.While)):
            continue
        collects = any(isinstance(x, ast.Call) and isinstance(x.func, ast.Attribute) and x.func.attr in ("append", "add") for x in ast.walk(lp))
        if not collects:
            continue
        for b in ast.walk(lp):
            if not isinstance(b, ast.Break) or v.enclosing(b, (ast.For, ast.While)) is not lp:
                continue
            found += 1
            tests = _break_conditions(v, b, lp)
            bad = [t for t in tests if mentions_filter(t)]
            res.add(rule, f, norm(tests[0])[:120] if tests else "break", "break-on-sort-key-only", "violation" if bad else "ok", f"the collecting scan stops (`break`) on a condition that involves the order/size filter (`{norm(bad[0])[:80]}`): after the first record of another size every later matching record is dropped" if bad else "", loc(v.fi, b))
    if not found:
        res.ok(rule, f, "no early exit from a collecting scan", "scan", loc(v.fi, v.fi.node))


def check_vectorize_otypes(ctx, res: Result, relpath: str, rule="N-VECTYPE"):
    """np.vectorize(f) without `otypes` takes the output dtype from the FIRST element: when f can return an int literal on
    one path and a float on another, an array whose first element takes the int path is truncated to integers."""
    n = 0
    for q, fi in sorted(ctx.prog.functions.items()):
        if fi.module.relpath != relpath:
            continue
        for c in walk_no_nested(fi.node):
            if not (isinstance(c, ast.Call) and norm(c.func) in ("np.vectorize", "numpy.vectorize") and c.args):
                continue
            n += 1
            if any(kw.arg == "otypes" for kw in c.keywords):
                res.ok(rule, fi.short, norm(c)[:100], "otypes", loc(fi, c))
                continue
            tgt = c.args[0]
            cand = None
            if isinstance(tgt, ast.Name):
                cand = fi.module.functions.get(tgt.id) if hasattr(fi.module, "functions") else None
                if cand is None:
                    cand = next((g for g in ctx.prog.functions.values() if g.module is fi.module and g.name == tgt.id and g.cls is None), None)
            if cand is None:
                res.unknown(rule, fi.short, norm(c)[:100], "otypes", "the vectorised function was not resolved", loc(fi, c))
                continue
            rets = [r.value for r in walk_no_nested(cand.node) if isinstance(r, ast.Return) and r.value is not None]
            ints = [r for r in rets if isinstance(r, ast.Constant) and isinstance(r.value, int) and not isinstance(r.value, bool)]
            other = [r for r in rets if not isinstance(r, ast.Constant)]
            if ints and other:
                res.violation(rule, fi.short, norm(c)[:100], "otypes", f"{cand.short} returns the int literal `{norm(ints[0])}` on one path and a computed float on another; np.vectorize without otypes takes the dtype of the first element, so an array starting with that case is truncated to integers", loc(cand, ints[0]))
            else:
                res.ok(rule, fi.short, norm(c)[:100], "otypes", loc(fi, c))
    if not n:
        res.ok(rule, relpath, "no np.vectorize", "scan", relpath)


def check_self_shift_recurrence(ctx, res: Result, dotted, rule="N-RECUR"):
    """`X[1:] = g(X[:-1])` evaluates the right-hand side before anything is written: a recurrence X[d] = g(X[d-1]) written as
    one slice assignment reads the OLD rows.  Reported: a slice assignment whose right-hand side combines a differently
    sliced read of the same array with other terms (a plain shift `X[1:] = X[:-1]` is not a recurrence)."""
    v = ctx.view(dotted)
    f = v.fi.short
    found = 0
    for n in walk_no_nested(v.fi.node):
        if not (isinstance(n, ast.Assign) and len(n.targets) == 1 and isinstance(n.targets[0], ast.Subscript)):
            continue
        t = n.targets[0]
        tsl = t.slice.elts[0] if isinstance(t.slice, ast.Tuple) and t.slice.elts else t.slice
        if not isinstance(tsl, ast.Slice):
            continue
        base = norm(t.value)
        for r in ast.walk(n.value):
            if isinstance(r, ast.Subscript) and norm(r.value) == base:
                rsl = r.slice.elts[0] if isinstance(r.slice, ast.Tuple) and r.slice.elts else r.slice
                if isinstance(rsl, ast.Slice) and norm(rsl) != norm(tsl) and not (isinstance(n.value, ast.Subscript) and n.value is r):
                    found += 1
                    res.violation(rule, f, norm(n)[:140], "sequential", f"`{norm(t)}` is assigned from `{norm(r)}` of the same array in one slice operation: the right-hand side is evaluated before any row is written, so row d is computed from the OLD row d-1 instead of the freshly updated one (the recursion has to run degree by degree)", loc(v.fi, n))
    if not found:
        res.ok(rule, f, "no vectorised self-recurrence", "scan", loc(v.fi, v.fi.node))


def check_iterator_reuse(ctx, res: Result, dotted, rule="G-REUSE"):
    """A generator can be consumed once.  A local that may hold a generator expression (assigned from one, or from a repository
    helper that returns one on some path) and is consumed in full (a `for` loop without `break`, list() / set() / sum() ...)
    is empty afterwards: a later loop or membership test over it sees nothing."""
    v = ctx.view(dotted)
    fi = v.fi
    f = fi.short
    res.rules.setdefault(rule, "a local that may hold a generator is not consumed a second time after it was consumed in full (the second pass would see an empty iterator)")

    def may_be_generator(e, depth=0):
        if isinstance(e, ast.GeneratorExp):
            return True
        if isinstance(e, ast.Call) and isinstance(e.func, ast.Name) and e.func.id in ("map", "filter", "zip", "iter", "reversed", "enumerate"):
            return e.func.id != "iter"  # iter(x) is the deliberate one-shot idiom
        if isinstance(e, ast.IfExp):
            return may_be_generator(e.body, depth) or may_be_generator(e.orelse, depth)
        if isinstance(e, ast.Call) and depth < 2:
            for g in ctx.callees(fi, e):
                gv = ctx.view(g)
                for r in walk_no_nested(g.node):
                    if isinstance(r, ast.Return) and r.value is not None:
                        rv = gv.resolve(r.value) if isinstance(r.value, ast.Name) else r.value
                        if may_be_generator(rv, depth + 1):
                            return True
        return False

    names = {}
    for n in walk_no_nested(fi.node):
        if isinstance(n, ast.Assign) and len(n.targets) == 1 and isinstance(n.targets[0], ast.Name) and may_be_generator(n.value):
            names.setdefault(n.targets[0].id, []).append(n)
    n_checked = 0
    for name, defs in sorted(names.items()):
        # consumptions: (cfg id, node, full?)
        uses = []
        for n in walk_no_nested(fi.node):
            if isinstance(n, ast.For) and isinstance(n.iter, ast.Name) and n.iter.id == name:
                full = not any(isinstance(b, (ast.Break, ast.Return)) for b in ast.walk(n))
                uses.append((v.cfg.by_ast.get(id(n)), n, full))
            elif isinstance(n, ast.Compare) and any(isinstance(c, ast.Name) and c.id == name for c in n.comparators) and any(isinstance(o, (ast.In, ast.NotIn)) for o in n.ops):
                uses.append((v.cfg_id(n), n, False))
            elif isinstance(n, ast.Call) and isinstance(n.func, ast.Name) and n.func.id in ("list", "set", "tuple", "sorted", "sum", "max", "min", "frozenset", "dict", "any", "all", "len") and n.args and isinstance(n.args[0], ast.Name) and n.args[0].id == name:
                uses.append((v.cfg_id(n), n, n.func.id not in ("any", "all")))
            elif isinstance(n, (ast.ListComp, ast.SetComp, ast.DictComp, ast.GeneratorExp)) and any(isinstance(g.iter, ast.Name) and g.iter.id == name for g in n.generators):
                uses.append((v.cfg_id(n), n, True))
        uses = [u for u in uses if u[0] is not None]
        for a in uses:
            if not a[2]:
                continue
            for b in uses:
                if b is a:
                    continue
                # b can run after a completed (for a loop: via its `done` edge), with no re-definition of the name in between
                start = v.cfg.succ(a[0], "done") if isinstance(a[1], ast.For) else [a[0]]
                redefs = {v.cfg_id(d) for d in defs} - {None}
                if any(s_ == b[0] or v.cfg.reaches_without(s_, b[0], redefs) for s_ in start):
                    n_checked += 1
                    res.violation(rule, f, norm(b[1])[:100], name, f"`{name}` may be a generator (see its definition) and was consumed in full by `{norm(a[1])[:60]}`: this second use sees an empty iterator (a membership test is then always False, a loop runs zero times)", loc(fi, b[1]))
                    break
    if n_checked == 0:
        res.ok(rule, f, "no local generator consumed twice", "scan", loc(fi, fi.node))


def check_stale_in_loop(ctx, res: Result, dotted, rule="G-STALE"):
    """Inside a loop, a local that is only ever assigned inside the loop body is read on a path of the iteration that has not
    assigned it: the value it has there was computed for an EARLIER item (or it is unbound).  Accumulators (initialised before
    the loop) and loop targets are what is meant to be carried from one iteration to the next; nothing else is."""
    v = ctx.view(dotted)
    fi = v.fi
    f = fi.short
    res.rules.setdefault(rule, "inside a loop no local is read on a path of the iteration that did not assign it, unless it was initialised before the loop (no value computed for an earlier item is used for the current one)")
    params = {a.arg for a in fi.params} | {a.arg for a in fi.node.args.kwonlyargs}
    n_found = 0

    def stores_in(node):
        out = {}
        for n in ast.walk(node):
            if isinstance(n, ast.Name) and isinstance(n.ctx, ast.Store):
                out.setdefault(n.id, []).append(n)
        return out

    loops = [n for n in walk_no_nested(fi.node) if isinstance(n, (ast.For, ast.While))]
    reported = set()
    for lp in loops:
        hid = v.cfg.by_ast.get(id(lp)) if isinstance(lp, ast.For) else v.cfg.by_ast.get(id(lp.test))
        if hid is None:
            continue
        body_nodes = [y for st in lp.body for y in ast.walk(st)]
        body_ids = {id(y) for y in body_nodes}
        inner = stores_in(ast.Module(body=lp.body, type_ignores=[]))
        target_names = {x.id for x in ast.walk(lp.target) if isinstance(x, ast.Name)} if isinstance(lp, ast.For) else set()
        # comprehension variables are local to their comprehension
        comp_vars = {x.id for y in body_nodes if isinstance(y, ast.comprehension) for x in ast.walk(y.target) if isinstance(x, ast.Name)}
        for name, sts in inner.items():
            if name in params or name in target_names or name in comp_vars or name in reported:
                continue
            # defined anywhere outside this loop's body?  then carrying it is (possibly) deliberate
            outside = [n for n in ast.walk(fi.node) if isinstance(n, ast.Name) and isinstance(n.ctx, ast.Store) and n.id == name and id(n) not in body_ids]
            if outside:
                continue
            def_ids = set()
            for s_ in sts:
                st_ = v.stmt_of(s_)
                # a nested loop's target is (re)assigned at that loop's head
                holder = v.enclosing(s_, (ast.For,))
                if holder is not None and holder is not lp and any(s_ is y for y in ast.walk(holder.target)):
                    cid = v.cfg.by_ast.get(id(holder))
                else:
                    cid = v.cfg_id(st_) if st_ is not None else None
                if cid is not None:
                    def_ids.add(cid)
            if not def_ids:
                continue
            for u in body_nodes:
                if not (isinstance(u, ast.Name) and isinstance(u.ctx, ast.Load) and u.id == name):
                    continue
                uid = v.cfg_id(u)
                if uid is None or uid in def_ids:
                    # (a statement that both reads and writes the name: `x = f(x)` - reads the previous value)
                    if uid in def_ids and not any(isinstance(a_, ast.AugAssign) for a_ in [v.stmt_of(u)]):
                        pass
                    continue
                starts = v.cfg.succ(hid, "iter") if isinstance(lp, ast.For) else v.cfg.succ(hid, "T")
                # (a value deliberately carried to the NEXT iteration - `prev = x` at the end of the body - is assigned after its
                # use; what is reported is a use that an assignment EARLIER in the same iteration is meant to feed)
                fed_in_iteration = any(v.cfg.reaches_without(d_, uid, {hid}) for d_ in def_ids)
                if fed_in_iteration and any(s0 == uid or (s0 not in def_ids and v.cfg.reaches_without(s0, uid, def_ids)) for s0 in starts):
                    n_found += 1
                    reported.add(name)
                    res.violation(rule, f, norm(v.stmt_of(u) or u)[:100], name, f"`{name}` is assigned only inside this loop, and this use can be reached in an iteration that did not assign it: it then still holds the value computed for an earlier item (or is unbound on the first one)", loc(fi, u))
                    break
    if n_found == 0:
        res.ok(rule, f, "no stale loop-local value", "scan", loc(fi, fi.node))

"""Small positive-pattern rules shared by several properties: each reports a construct that is wrong whenever it occurs
in the anchored code (never the absence of something)."""
from __future__ import annotations

import ast

from .model import loc, norm, walk_no_nested
from .report import Result


def check_groupby_sorted(ctx, res: Result, dotted: str, rule="G-GROUPBY"):
    """itertools.groupby only merges CONSECUTIVE items: grouping records by a key needs an input sorted by that key.
    Reported: groupby over an iterable that is not `sorted(..., key=<same key>)` (or sorted without key when the
    grouping key is the first component)."""
    v = ctx.view(dotted)
    f = v.fi.short
    found = 0
    for n in ast.walk(v.fi.node):
        if isinstance(n, ast.Call) and norm(n.func) in ("groupby", "itertools.groupby") and n.args:
            found += 1
            it = v.inline(n.args[0])
            key = n.args[1] if len(n.args) > 1 else next((k.value for k in n.keywords if k.arg == "key"), None)
            is_sorted = isinstance(it, ast.Call) and norm(it.func) == "sorted"
            if is_sorted:
                skey = next((k.value for k in it.keywords if k.arg == "key"), None)
                same = (skey is None and key is None) or (skey is not None and key is not None and norm(skey) == norm(key)) or (skey is None and key is not None and isinstance(key, ast.Lambda) and isinstance(key.body, ast.Subscript) and isinstance(key.body.slice, ast.Constant) and key.body.slice.value == 0)
                res.add(rule, f, norm(n)[:140], "sorted-input", "ok" if same else "unknown", "" if same else "the input is sorted by another key than the grouping key", loc(v.fi, n))
            elif getattr(v.kind(n.args[0]), "sorted", False) and (key is None or (isinstance(key, ast.Lambda) and isinstance(key.body, ast.Subscript) and isinstance(key.body.slice, ast.Constant) and key.body.slice.value == 0)):
                res.ok(rule, f, norm(n)[:140], "sorted-input", loc(v.fi, n))
            elif isinstance(it, ast.Name) and it.id in {a.arg for a in v.fi.params}:
                res.unknown(rule, f, norm(n)[:140], "sorted-input", "the grouped iterable is a parameter: whether the callers hand it over sorted is not decided", loc(v.fi, n))
            else:
                res.violation(rule, f, norm(n)[:140], "sorted-input", f"groupby runs over `{norm(it)[:80]}`, which is not sorted by the grouping key: records with the same key that are not adjacent form several groups (a later group overwrites / duplicates an earlier one)", loc(v.fi, n))
    # the same grouping written with numpy: run boundaries of a key column (`np.flatnonzero(np.diff(keys)) + 1`) delimit the
    # groups only when the records are sorted by that key
    for n in ast.walk(v.fi.node):
        if not (isinstance(n, ast.Call) and norm(n.func) in ("np.diff", "numpy.diff") and n.args):
            continue
        par = v.parent.get(id(n))
        boundary = (isinstance(par, ast.Call) and norm(par.func) in ("np.flatnonzero", "np.nonzero", "np.where", "numpy.flatnonzero", "numpy.nonzero", "numpy.where", "np.argwhere")) or (isinstance(par, ast.Compare) and any(isinstance(c, ast.Constant) and c.value == 0 for c in par.comparators))
        if isinstance(par, ast.Compare):
            gp = v.parent.get(id(par))
            boundary = boundary and isinstance(gp, ast.Call) and norm(gp.func) in ("np.flatnonzero", "np.nonzero", "np.where", "numpy.flatnonzero", "numpy.nonzero", "numpy.where", "np.argwhere")
        if not boundary:
            continue
        col = v.inline(n.args[0], depth=2)
        # the column is built by iterating a record list: np.fromiter((t for t, _ in L), ...) / np.array([r[0] for r in L])
        src = None
        if isinstance(col, ast.Call) and norm(col.func) in ("np.fromiter", "np.array", "np.asarray", "numpy.fromiter", "numpy.array", "numpy.asarray") and col.args and isinstance(col.args[0], (ast.GeneratorExp, ast.ListComp)) and len(col.args[0].generators) == 1:
            src = col.args[0].generators[0].iter
        if src is None:
            continue
        found += 1
        it = v.inline(src)
        if (isinstance(it, ast.Call) and norm(it.func) == "sorted") or getattr(v.kind(src), "sorted", False):
            res.ok(rule, f, norm(n)[:140], "sorted-input", loc(v.fi, n))
        elif isinstance(it, ast.Name) and it.id in {a.arg for a in v.fi.params}:
            res.unknown(rule, f, norm(n)[:140], "sorted-input", "the grouped records are a parameter: whether the callers hand them over sorted is not decided", loc(v.fi, n))
        else:
            res.violation(rule, f, norm(n)[:140], "sorted-input", f"run boundaries of a key column taken from `{norm(it)[:80]}` are used as group boundaries, but those records are not sorted by the key: records with the same key that are not adjacent form several groups (a later group overwrites / duplicates an earlier one)", loc(v.fi, n))
    if not found:
        res.ok(rule, f, "no itertools.groupby", "scan", loc(v.fi, v.fi.node))


def check_fancy_augassign(ctx, res: Result, dotted: str, rule="N-FANCYAUG"):
    """`A[rows, cols] += v` with ARRAY-valued indices does not accumulate repeated index pairs (numpy buffers the
    update): a vectorised count / weight accumulation must use np.add.at.  Reported: an augmented assignment whose
    subscript contains an index that is itself an array slice (`X[:, i]`) or an array built by np.array / asarray."""
    v = ctx.view(dotted)
    f = v.fi.short
    found = 0
    arrays = {n.targets[0].id for n in walk_no_nested(v.fi.node) if isinstance(n, ast.Assign) and isinstance(n.targets[0], ast.Name) and isinstance(n.value, ast.Call) and norm(n.value.func) in ("np.array", "np.asarray", "numpy.array", "numpy.asarray", "np.fromiter", "np.concatenate", "np.nonzero", "np.where", "np.arange")}
    for n in walk_no_nested(v.fi.node):
        if isinstance(n, ast.AugAssign) and isinstance(n.target, ast.Subscript):
            idx = n.target.slice.elts if isinstance(n.target.slice, ast.Tuple) else [n.target.slice]

            def is_arrayish(x, depth=0):
                """an index that is itself an array: a slice of an array, an np constructor, or a reshaping of one of these"""
                if isinstance(x, ast.Subscript) and (isinstance(x.slice, ast.Slice) or (isinstance(x.slice, ast.Tuple) and any(isinstance(e, ast.Slice) for e in x.slice.elts))):
                    return True
                if isinstance(x, ast.Call) and norm(x.func) in ("np.array", "np.asarray", "numpy.array", "numpy.asarray", "np.fromiter", "np.concatenate", "np.nonzero", "np.where", "np.arange", "np.repeat", "np.tile", "np.triu_indices", "np.tril_indices", "np.meshgrid", "np.indices"):
                    return True
                if isinstance(x, ast.Call) and isinstance(x.func, ast.Attribute) and x.func.attr in ("ravel", "flatten", "reshape", "astype", "copy", "squeeze", "transpose") and depth < 4:
                    return is_arrayish(x.func.value, depth + 1)
                if isinstance(x, ast.Attribute) and x.attr == "T" and depth < 4:
                    return is_arrayish(x.value, depth + 1)
                if isinstance(x, ast.Name):
                    if x.id in arrays:
                        return True
                    if depth < 4:
                        r_ = v.resolve(x)
                        if r_ is not x:
                            return is_arrayish(r_, depth + 1)
                        # an element of a tuple assignment `rows, cols = A[:, i].ravel(), A[:, j].ravel()` / `i, j = np.triu_indices(..)`
                        for d_ in walk_no_nested(v.fi.node):
                            if isinstance(d_, ast.Assign) and len(d_.targets) == 1 and isinstance(d_.targets[0], (ast.Tuple, ast.List)):
                                names_ = [t_.id if isinstance(t_, ast.Name) else None for t_ in d_.targets[0].elts]
                                if x.id in names_:
                                    if isinstance(d_.value, (ast.Tuple, ast.List)) and len(d_.value.elts) == len(names_):
                                        return is_arrayish(d_.value.elts[names_.index(x.id)], depth + 1)
                                    return is_arrayish(d_.value, depth + 1)
                return False

            arrayish = [x for x in idx if is_arrayish(x)]
            if arrayish:
                found += 1
                res.violation(rule, f, norm(n), "repeated-indices", f"`{norm(n.target)}` is indexed with arrays: `{type(n.op).__name__.lower()}=` through fancy indexing writes each repeated index pair once instead of accumulating (use np.add.at)", loc(v.fi, n))
    if not found:
        res.ok(rule, f, "no augmented assignment through array indices", "scan", loc(v.fi, v.fi.node))


def check_groupby_in_file(ctx, res: Result, relpath: str, rule="G-GROUPBY"):
    """G-GROUPBY over every function of one source file (one `scan` obligation when the file has no groupby at all)."""
    n = 0
    for q, fi in sorted(ctx.prog.functions.items()):
        if fi.module.relpath != relpath:
            continue
        if any(isinstance(x, ast.Call) and norm(x.func) in ("groupby", "itertools.groupby", "np.diff", "numpy.diff") for x in walk_no_nested(fi.node)):
            n += 1
            check_groupby_sorted(ctx, res, fi, rule=rule)
    if not n:
        res.ok(rule, relpath, "no itertools.groupby", "scan", relpath)


def _break_conditions(v, brk, loop):
    """tests (as written) on which reaching `brk` inside `loop` depends"""
    tests = []
    cur = brk
    while cur is not None and cur is not loop:
        par = v.parent.get(id(cur))
        if isinstance(par, ast.If) and cur is not par.test:
            tests.append(par.test)
            # an `elif` arm also depends on the failed tests before it
        cur = par
    return tests


def check_scan_break(ctx, res: Result, dotted, filter_names=("order", "size", "up_to"), rule="B-SCANBREAK"):
    """A loop that collects the records matching a window AND a size / order filter may stop early on the sort key only: a
    `break` whose condition involves the size filter stops the scan at the first record of another size and drops every
    later match."""
    v = ctx.view(dotted)
    f = v.fi.short
    local_defs = {n.name: n for n in ast.walk(v.fi.node) if isinstance(n, (ast.FunctionDef, ast.Lambda)) and n is not v.fi.node and hasattr(n, "name")}
    found = 0

    def mentions_filter(e, depth=0):
        e = v.inline(e)
        for x in ast.walk(e):
            if isinstance(x, ast.Name) and x.id in filter_names:
                return True
            if isinstance(x, ast.Call) and isinstance(x.func, ast.Name) and x.func.id in local_defs and depth < 2:
                d = local_defs[x.func.id]
                if any(isinstance(y, ast.Name) and y.id in filter_names for y in ast.walk(d)):
                    return True
        return False

    for lp in ast.walk(v.fi.node):
        if not isinstance(lp, (ast.For, ast.While)):
            continue
        collects = any(isinstance(x, ast.Call) and isinstance(x.func, ast.Attribute) and x.func.attr in ("append", "add") for x in ast.walk(lp))
        if not collects:
            continue
        for b in ast.walk(lp):
            if not isinstance(b, ast.Break) or v.enclosing(b, (ast.For, ast.While)) is not lp:
                continue
            found += 1
            tests = _break_conditions(v, b, lp)
            bad = [t for t in tests if mentions_filter(t)]
            res.add(rule, f, norm(tests[0])[:120] if tests else "break", "break-on-sort-key-only", "violation" if bad else "ok", f"the collecting scan stops (`break`) on a condition that involves the order/size filter (`{norm(bad[0])[:80]}`): after the first record of another size every later matching record is dropped" if bad else "", loc(v.fi, b))
    if not found:
        res.ok(rule, f, "no early exit from a collecting scan", "scan", loc(v.fi, v.fi.node))


def check_vectorize_otypes(ctx, res: Result, relpath: str, rule="N-VECTYPE"):
    """np.vectorize(f) without `otypes` takes the output dtype from the FIRST element: when f can return an int literal on
    one path and a float on another, an array whose first element takes the int path is truncated to integers."""
    n = 0
    for q, fi in sorted(ctx.prog.functions.items()):
        if fi.module.relpath != relpath:
            continue
        for c in walk_no_nested(fi.node):
            if not (isinstance(c, ast.Call) and norm(c.func) in ("np.vectorize", "numpy.vectorize") and c.args):
                continue
            n += 1
            if any(kw.arg == "otypes" for kw in c.keywords):
                res.ok(rule, fi.short, norm(c)[:100], "otypes", loc(fi, c))
                continue
            tgt = c.args[0]
            cand = None
            if isinstance(tgt, ast.Name):
                cand = fi.module.functions.get(tgt.id) if hasattr(fi.module, "functions") else None
                if cand is None:
                    cand = next((g for g in ctx.prog.functions.values() if g.module is fi.module and g.name == tgt.id and g.cls is None), None)
            if cand is None:
                res.unknown(rule, fi.short, norm(c)[:100], "otypes", "the vectorised function was not resolved", loc(fi, c))
                continue
            rets = [r.value for r in walk_no_nested(cand.node) if isinstance(r, ast.Return) and r.value is not None]
            ints = [r for r in rets if isinstance(r, ast.Constant) and isinstance(r.value, int) and not isinstance(r.value, bool)]
            other = [r for r in rets if not isinstance(r, ast.Constant)]
            if ints and other:
                res.violation(rule, fi.short, norm(c)[:100], "otypes", f"{cand.short} returns the int literal `{norm(ints[0])}` on one path and a computed float on another; np.vectorize without otypes takes the dtype of the first element, so an array starting with that case is truncated to integers", loc(cand, ints[0]))
            else:
                res.ok(rule, fi.short, norm(c)[:100], "otypes", loc(fi, c))
    if not n:
        res.ok(rule, relpath, "no np.vectorize", "scan", relpath)


def check_self_shift_recurrence(ctx, res: Result, dotted, rule="N-RECUR"):
    """`X[1:] = g(X[:-1])` evaluates the right-hand side before anything is written: a recurrence X[d] = g(X[d-1]) written as
    one slice assignment reads the OLD rows.  Reported: a slice assignment whose right-hand side combines a differently
    sliced read of the same array with other terms (a plain shift `X[1:] = X[:-1]` is not a recurrence)."""
    v = ctx.view(dotted)
    f = v.fi.short
    found = 0
    for n in walk_no_nested(v.fi.node):
        if not (isinstance(n, ast.Assign) and len(n.targets) == 1 and isinstance(n.targets[0], ast.Subscript)):
            continue
        t = n.targets[0]
        tsl = t.slice.elts[0] if isinstance(t.slice, ast.Tuple) and t.slice.elts else t.slice
        if not isinstance(tsl, ast.Slice):
            continue
        base = norm(t.value)
        for r in ast.walk(n.value):
            if isinstance(r, ast.Subscript) and norm(r.value) == base:
                rsl = r.slice.elts[0] if isinstance(r.slice, ast.Tuple) and r.slice.elts else r.slice
                if isinstance(rsl, ast.Slice) and norm(rsl) != norm(tsl) and not (isinstance(n.value, ast.Subscript) and n.value is r):
                    found += 1
                    res.violation(rule, f, norm(n)[:140], "sequential", f"`{norm(t)}` is assigned from `{norm(r)}` of the same array in one slice operation: the right-hand side is evaluated before any row is written, so row d is computed from the OLD row d-1 instead of the freshly updated one (the recursion has to run degree by degree)", loc(v.fi, n))
    if not found:
        res.ok(rule, f, "no vectorised self-recurrence", "scan", loc(v.fi, v.fi.node))

"""Small positive-pattern rules shared by several properties: each reports a construct that is wrong whenever it occurs
in the anchored code (never the absence of something)."""
from __future__ import annotations

import ast

from .model import loc, norm, walk_no_nested
from .report import Result


def check_groupby_sorted(ctx, res: Result, dotted: str, rule="G-GROUPBY"):
    """itertools.groupby only merges CONSECUTIVE items: grouping records by a key needs an input sorted by that key.
    Reported: groupby over an iterable that is not `sorted(..., key=<same key>)` (or sorted without key when the
    grouping key is the first component)."""
    v = ctx.view(dotted)
    f = v.fi.short
    found = 0
    for n in ast.walk(v.fi.node):
        if isinstance(n, ast.Call) and norm(n.func) in ("groupby", "itertools.groupby") and n.args:
            found += 1
            it = v.inline(n.args[0])
            key = n.args[1] if len(n.args) > 1 else next((k.value for k in n.keywords if k.arg == "key"), None)
            is_sorted = isinstance(it, ast.Call) and norm(it.func) == "sorted"
            if is_sorted:
                skey = next((k.value for k in it.keywords if k.arg == "key"), None)
                same = (skey is None and key is None) or (skey is not None and key is not None and norm(skey) == norm(key)) or (skey is None and key is not None and isinstance(key, ast.Lambda) and isinstance(key.body, ast.Subscript) and isinstance(key.body.slice, ast.Constant) and key.body.slice.value == 0)
                res.add(rule, f, norm(n)[:140], "sorted-input", "ok" if same else "unknown", "" if same else "the input is sorted by another key than the grouping key", loc(v.fi, n))
            elif getattr(v.kind(n.args[0]), "sorted", False) and (key is None or (isinstance(key, ast.Lambda) and isinstance(key.body, ast.Subscript) and isinstance(key.body.slice, ast.Constant) and key.body.slice.value == 0)):
                res.ok(rule, f, norm(n)[:140], "sorted-input", loc(v.fi, n))
            elif isinstance(it, ast.Name) and it.id in {a.arg for a in v.fi.params}:
                res.unknown(rule, f, norm(n)[:140], "sorted-input", "the grouped iterable is a parameter: whether the callers hand it over sorted is not decided", loc(v.fi, n))
            else:
                # grouping (one entry per key) vs. run-length use (`sum(1 for _ in groupby(xs))`, islice(groupby(xs), 2)): only a
                # consumer that files the groups under their key is hurt by a key that comes back
                par = v.parent.get(id(n))
                holder = par
                while holder is not None and not isinstance(holder, (ast.For, ast.comprehension, ast.Assign, ast.Return, ast.Expr)):
                    holder = v.parent.get(id(holder))
                gname = holder.targets[0].id if isinstance(holder, ast.Assign) and len(holder.targets) == 1 and isinstance(holder.targets[0], ast.Name) else None
                consumers = []
                for x in ast.walk(v.fi.node):
                    if isinstance(x, (ast.For, ast.comprehension)) and (x.iter is n or (gname and isinstance(x.iter, ast.Name) and x.iter.id == gname) or any(y is n for y in ast.walk(x.iter))):
                        consumers.append(x)
                keyed = any(isinstance(c_.target, ast.Tuple) and len(c_.target.elts) == 2 for c_ in consumers)
                if keyed:
                    res.violation(rule, f, norm(n)[:140], "sorted-input", f"groupby runs over `{norm(it)[:80]}`, which is not sorted by the grouping key: records with the same key that are not adjacent form several groups (a later group overwrites / duplicates an earlier one)", loc(v.fi, n))
                else:
                    res.unknown(rule, f, norm(n)[:140], "sorted-input", "groupby over an unsorted iterable whose groups are not unpacked as (key, group): a run-length use, not a grouping by key", loc(v.fi, n))
    # the same grouping written with numpy: run boundaries of a key column (`np.flatnonzero(np.diff(keys)) + 1`) delimit the
    # groups only when the records are sorted by that key
    for n in ast.walk(v.fi.node):
        if not (isinstance(n, ast.Call) and norm(n.func) in ("np.diff", "numpy.diff") and n.args):
            continue
        par = v.parent.get(id(n))
        boundary = (isinstance(par, ast.Call) and norm(par.func) in ("np.flatnonzero", "np.nonzero", "np.where", "numpy.flatnonzero", "numpy.nonzero", "numpy.where", "np.argwhere")) or (isinstance(par, ast.Compare) and any(isinstance(c, ast.Constant) and c.value == 0 for c in par.comparators))
        if isinstance(par, ast.Compare):
            gp = v.parent.get(id(par))
            boundary = boundary and isinstance(gp, ast.Call) and norm(gp.func) in ("np.flatnonzero", "np.nonzero", "np.where", "numpy.flatnonzero", "numpy.nonzero", "numpy.where", "np.argwhere")
        if not boundary:
            continue
        col = v.inline(n.args[0], depth=2)
        # the column is built by iterating a record list: np.fromiter((t for t, _ in L), ...) / np.array([r[0] for r in L])
        src = None
        if isinstance(col, ast.Call) and norm(col.func) in ("np.fromiter", "np.array", "np.asarray", "numpy.fromiter", "numpy.array", "numpy.asarray") and col.args and isinstance(col.args[0], (ast.GeneratorExp, ast.ListComp)) and len(col.args[0].generators) == 1:
            src = col.args[0].generators[0].iter
        if src is None:
            continue
        found += 1
        it = v.inline(src)
        if (isinstance(it, ast.Call) and norm(it.func) == "sorted") or getattr(v.kind(src), "sorted", False):
            res.ok(rule, f, norm(n)[:140], "sorted-input", loc(v.fi, n))
        elif isinstance(it, ast.Name) and it.id in {a.arg for a in v.fi.params}:
            res.unknown(rule, f, norm(n)[:140], "sorted-input", "the grouped records are a parameter: whether the callers hand them over sorted is not decided", loc(v.fi, n))
        else:
            res.violation(rule, f, norm(n)[:140], "sorted-input", f"run boundaries of a key column taken from `{norm(it)[:80]}` are used as group boundaries, but those records are not sorted by the key: records with the same key that are not adjacent form several groups (a later group overwrites / duplicates an earlier one)", loc(v.fi, n))
    if not found:
        res.ok(rule, f, "no itertools.groupby", "scan", loc(v.fi, v.fi.node))


def check_fancy_augassign(ctx, res: Result, dotted: str, rule="N-FANCYAUG"):
    """`A[rows, cols] += v` with ARRAY-valued indices does not accumulate repeated index pairs (numpy buffers the
    update): a vectorised count / weight accumulation must use np.add.at.  Reported: an augmented assignment whose
    subscript contains an index that is itself an array slice (`X[:, i]`) or an array built by np.array / asarray."""
    v = ctx.view(dotted)
    f = v.fi.short
    found = 0
    arrays = {n.targets[0].id for n in walk_no_nested(v.fi.node) if isinstance(n, ast.Assign) and isinstance(n.targets[0], ast.Name) and isinstance(n.value, ast.Call) and norm(n.value.func) in ("np.array", "np.asarray", "numpy.array", "numpy.asarray", "np.fromiter", "np.concatenate", "np.nonzero", "np.where", "np.arange")}
    for n in walk_no_nested(v.fi.node):
        if isinstance(n, ast.AugAssign) and isinstance(n.target, ast.Subscript):
            idx = n.target.slice.elts if isinstance(n.target.slice, ast.Tuple) else [n.target.slice]

            def is_arrayish(x, depth=0):
                """an index that is itself an array: a slice of an array, an np constructor, or a reshaping of one of these"""
                if isinstance(x, ast.Subscript) and (isinstance(x.slice, ast.Slice) or (isinstance(x.slice, ast.Tuple) and any(isinstance(e, ast.Slice) for e in x.slice.elts))):
                    return True
                if isinstance(x, ast.Call) and norm(x.func) in ("np.array", "np.asarray", "numpy.array", "numpy.asarray", "np.fromiter", "np.concatenate", "np.nonzero", "np.where", "np.arange", "np.repeat", "np.tile", "np.triu_indices", "np.tril_indices", "np.meshgrid", "np.indices"):
                    return True
                if isinstance(x, ast.Call) and isinstance(x.func, ast.Attribute) and x.func.attr in ("ravel", "flatten", "reshape", "astype", "copy", "squeeze", "transpose") and depth < 4:
                    return is_arrayish(x.func.value, depth + 1)
                if isinstance(x, ast.Attribute) and x.attr == "T" and depth < 4:
                    return is_arrayish(x.value, depth + 1)
                if isinstance(x, ast.Name):
                    if x.id in arrays:
                        return True
                    if depth < 4:
                        r_ = v.resolve(x)
                        if r_ is not x:
                            return is_arrayish(r_, depth + 1)
                        # an element of a tuple assignment `rows, cols = A[:, i].ravel(), A[:, j].ravel()` / `i, j = np.triu_indices(..)`
                        for d_ in walk_no_nested(v.fi.node):
                            if isinstance(d_, ast.Assign) and len(d_.targets) == 1 and isinstance(d_.targets[0], (ast.Tuple, ast.List)):
                                names_ = [t_.id if isinstance(t_, ast.Name) else None for t_ in d_.targets[0].elts]
                                if x.id in names_:
                                    if isinstance(d_.value, (ast.Tuple, ast.List)) and len(d_.value.elts) == len(names_):
                                        return is_arrayish(d_.value.elts[names_.index(x.id)], depth + 1)
                                    return is_arrayish(d_.value, depth + 1)
                return False

            arrayish = [x for x in idx if is_arrayish(x)]
            if arrayish:
                found += 1
                res.violation(rule, f, norm(n), "repeated-indices", f"`{norm(n.target)}` is indexed with arrays: `{type(n.op).__name__.lower()}=` through fancy indexing writes each repeated index pair once instead of accumulating (use np.add.at)", loc(v.fi, n))
    if not found:
        res.ok(rule, f, "no augmented assignment through array indices", "scan", loc(v.fi, v.fi.node))


def check_groupby_in_file(ctx, res: Result, relpath: str, rule="G-GROUPBY"):
    """G-GROUPBY over every function of one source file (one `scan` obligation when the file has no groupby at all)."""
    n = 0
    for q, fi in sorted(ctx.prog.functions.items()):
        if fi.module.relpath != relpath:
            continue
        if any(isinstance(x, ast.Call) and norm(x.func) in ("groupby", "itertools.groupby", "np.diff", "numpy.diff") for x in walk_no_nested(fi.node)):
            n += 1
            check_groupby_sorted(ctx, res, fi, rule=rule)
    if not n:
        res.ok(rule, relpath, "no itertools.groupby", "scan", relpath)


def _break_conditions(v, brk, loop):
    """tests (as written) on which reaching `brk` inside `loop` depends"""
    tests = []
    cur = brk
    while cur is not None and cur is not loop:
        par = v.parent.get(id(cur))
        if isinstance(par, ast.If) and cur is not par.test:
            tests.append(par.test)
            # an `elif` arm also depends on the failed tests before it
        cur = par
    return tests


def check_scan_break(ctx, res: Result, dotted, filter_names=("order", "size", "up_to"), rule="B-SCANBREAK"):
    """A loop that collects the records matching a window AND a size / order filter may stop early on the sort key only: a
    `break` whose condition involves the size filter stops the scan at the first record of another size and drops every
    later match."""
    v = ctx.view(dotted)
    f = v.fi.short
    local_defs = {n.name: n for n in ast.walk(v.fi.node) if isinstance(n, (ast.FunctionDef, ast.Lambda)) and n is not v.fi.node and hasattr(n, "name")}
    found = 0

    def mentions_filter(e, depth=0):
        e = v.inline(e)
        for x in ast.walk(e):
            if isinstance(x, ast.Name) and x.id in filter_names:
                return True
            if isinstance(x, ast.Call) and isinstance(x.func, ast.Name) and x.func.id in local_defs and depth < 2:
                d = local_defs[x.func.id]
                if any(isinstance(y, ast.Name) and y.id in filter_names for y in ast.walk(d)):
                    return True
        return False

    for lp in ast.walk(v.fi.node):
        if not isinstance(lp, (ast.For, ast.While)):
            continue
        collects = any(isinstance(x, ast.Call) and isinstance(x.func, ast.Attribute) and x.func.attr in ("append", "add") for x in ast.walk(lp))
        if not collects:
            continue
        for b in ast.walk(lp):
            if not isinstance(b, ast.Break) or v.enclosing(b, (ast.For, ast.While)) is not lp:
                continue
            found += 1
            tests = _break_conditions(v, b, lp)
            bad = [t for t in tests if mentions_filter(t)]
            res.add(rule, f, norm(tests[0])[:120] if tests else "break", "break-on-sort-key-only", "violation" if bad else "ok", f"the collecting scan stops (`break`) on a condition that involves the order/size filter (`{norm(bad[0])[:80]}`): after the first record of another size every later matching record is dropped" if bad else "", loc(v.fi, b))
    if not found:
        res.ok(rule, f, "no early exit from a collecting scan", "scan", loc(v.fi, v.fi.node))


def check_vectorize_otypes(ctx, res: Result, relpath: str, rule="N-VECTYPE"):
    """np.vectorize(f) without `otypes` takes the output dtype from the FIRST element: when f can return an int literal on
    one path and a float on another, an array whose first element takes the int path is truncated to integers."""
    n = 0
    for q, fi in sorted(ctx.prog.functions.items()):
        if fi.module.relpath != relpath:
            continue
        for c in walk_no_nested(fi.node):
            if not (isinstance(c, ast.Call) and norm(c.func) in ("np.vectorize", "numpy.vectorize") and c.args):
                continue
            n += 1
            if any(kw.arg == "otypes" for kw in c.keywords):
                res.ok(rule, fi.short, norm(c)[:100], "otypes", loc(fi, c))
                continue
            tgt = c.args[0]
            cand = None
            if isinstance(tgt, ast.Name):
                cand = fi.module.functions.get(tgt.id) if hasattr(fi.module, "functions") else None
                if cand is None:
                    cand = next((g for g in ctx.prog.functions.values() if g.module is fi.module and g.name == tgt.id and g.cls is None), None)
            if cand is None:
                res.unknown(rule, fi.short, norm(c)[:100], "otypes", "the vectorised function was not resolved", loc(fi, c))
                continue
            rets = [r.value for r in walk_no_nested(cand.node) if isinstance(r, ast.Return) and r.value is not None]
            ints = [r for r in rets if isinstance(r, ast.Constant) and isinstance(r.value, int) and not isinstance(r.value, bool)]
            other = [r for r in rets if not isinstance(r, ast.Constant)]
            if ints and other:
                res.violation(rule, fi.short, norm(c)[:100], "otypes", f"{cand.short} returns the int literal `{norm(ints[0])}` on one path and a computed float on another; np.vectorize without otypes takes the dtype of the first element, so an array starting with that case is truncated to integers", loc(cand, ints[0]))
            else:
                res.ok(rule, fi.short, norm(c)[:100], "otypes", loc(fi, c))
    if not n:
        res.ok(rule, relpath, "no np.vectorize", "scan", relpath)


def check_self_shift_recurrence(ctx, res: Result, dotted, rule="N-RECUR"):
    """`X[1:] = g(X[:-1])` evaluates the right-hand side before anything is written: a recurrence X[d] = g(X[d-1]) written as
    one slice assignment reads the OLD rows.  Reported: a slice assignment whose right-hand side combines a differently
    sliced read of the same array with other terms (a plain shift `X[1:] = X[:-1]` is not a recurrence)."""
    v = ctx.view(dotted)
    f = v.fi.short
    found = 0
    for n in walk_no_nested(v.fi.node):
        if not (isinstance(n, ast.Assign) and len(n.targets) == 1 and isinstance(n.targets[0], ast.Subscript)):
            continue
        t = n.targets[0]
        tsl = t.slice.elts[0] if isinstance(t.slice, ast.Tuple) and t.slice.elts else t.slice
        if not isinstance(tsl, ast.Slice):
            continue
        base = norm(t.value)
        for r in ast.walk(n.value):
            if isinstance(r, ast.Subscript) and norm(r.value) == base:
                rsl = r.slice.elts[0] if isinstance(r.slice, ast.Tuple) and r.slice.elts else r.slice
                if isinstance(rsl, ast.Slice) and norm(rsl) != norm(tsl) and not (isinstance(n.value, ast.Subscript) and n.value is r):
                    found += 1
                    res.violation(rule, f, norm(n)[:140], "sequential", f"`{norm(t)}` is assigned from `{norm(r)}` of the same array in one slice operation: the right-hand side is evaluated before any row is written, so row d is computed from the OLD row d-1 instead of the freshly updated one (the recursion has to run degree by degree)", loc(v.fi, n))
    if not found:
        res.ok(rule, f, "no vectorised self-recurrence", "scan", loc(v.fi, v.fi.node))


def check_iterator_reuse(ctx, res: Result, dotted, rule="G-REUSE"):
    """A generator can be consumed once.  A local that may hold a generator expression (assigned from one, or from a repository
    helper that returns one on some path) and is consumed in full (a `for` loop without `break`, list() / set() / sum() ...)
    is empty afterwards: a later loop or membership test over it sees nothing."""
    v = ctx.view(dotted)
    fi = v.fi
    f = fi.short
    res.rules.setdefault(rule, "a local that may hold a generator is not consumed a second time after it was consumed in full (the second pass would see an empty iterator)")

    def may_be_generator(e, depth=0):
        if isinstance(e, ast.GeneratorExp):
            return True
        if isinstance(e, ast.Call) and isinstance(e.func, ast.Name) and e.func.id in ("map", "filter", "zip", "iter", "reversed", "enumerate"):
            return e.func.id != "iter"  # iter(x) is the deliberate one-shot idiom
        if isinstance(e, ast.IfExp):
            return may_be_generator(e.body, depth) or may_be_generator(e.orelse, depth)
        if isinstance(e, ast.Call) and depth < 2:
            for g in ctx.callees(fi, e):
                gv = ctx.view(g)
                for r in walk_no_nested(g.node):
                    if isinstance(r, ast.Return) and r.value is not None:
                        rv = gv.resolve(r.value) if isinstance(r.value, ast.Name) else r.value
                        if may_be_generator(rv, depth + 1):
                            return True
        return False

    names = {}
    for n in walk_no_nested(fi.node):
        if isinstance(n, ast.Assign) and len(n.targets) == 1 and isinstance(n.targets[0], ast.Name) and may_be_generator(n.value):
            names.setdefault(n.targets[0].id, []).append(n)
    n_checked = 0
    for name, defs in sorted(names.items()):
        # consumptions: (cfg id, node, full?)
        uses = []
        for n in walk_no_nested(fi.node):
            if isinstance(n, ast.For) and isinstance(n.iter, ast.Name) and n.iter.id == name:
                full = not any(isinstance(b, (ast.Break, ast.Return)) for b in ast.walk(n))
                uses.append((v.cfg.by_ast.get(id(n)), n, full))
            elif isinstance(n, ast.Compare) and any(isinstance(c, ast.Name) and c.id == name for c in n.comparators) and any(isinstance(o, (ast.In, ast.NotIn)) for o in n.ops):
                uses.append((v.cfg_id(n), n, False))
            elif isinstance(n, ast.Call) and isinstance(n.func, ast.Name) and n.func.id in ("list", "set", "tuple", "sorted", "sum", "max", "min", "frozenset", "dict", "any", "all", "len") and n.args and isinstance(n.args[0], ast.Name) and n.args[0].id == name:
                uses.append((v.cfg_id(n), n, n.func.id not in ("any", "all")))
            elif isinstance(n, (ast.ListComp, ast.SetComp, ast.DictComp, ast.GeneratorExp)) and any(isinstance(g.iter, ast.Name) and g.iter.id == name for g in n.generators):
                uses.append((v.cfg_id(n), n, True))
        uses = [u for u in uses if u[0] is not None]
        for a in uses:
            if not a[2]:
                continue
            for b in uses:
                if b is a:
                    continue
                # b can run after a completed (for a loop: via its `done` edge), with no re-definition of the name in between
                start = v.cfg.succ(a[0], "done") if isinstance(a[1], ast.For) else [a[0]]
                # every (re)binding of the name starts a new object: `scores = d.items()` ... `scores = (x for x in scores if ...)`
                redefs = {v.cfg_id(x) for x in walk_no_nested(fi.node) if isinstance(x, ast.Name) and isinstance(x.ctx, ast.Store) and x.id == name} - {None}
                if a[0] in redefs and not isinstance(a[1], ast.For):
                    continue  # the use feeds the statement that rebinds the name: what is consumed is the PREVIOUS object
                if a[0] == b[0] and not isinstance(a[1], ast.For):
                    # inside one statement: the two uses exclude each other when they sit in different arms of a conditional
                    # expression (`list(g) if c else [x for x in g if ...]`)
                    def arms_of(node):
                        out, cur = [], node
                        while cur is not None and cur is not fi.node:
                            par_ = v.parent.get(id(cur))
                            if isinstance(par_, ast.IfExp) and cur is not par_.test:
                                out.append((id(par_), "body" if cur is par_.body else "orelse"))
                            cur = par_
                        return dict(out)

                    aa, bb = arms_of(a[1]), arms_of(b[1])
                    if any(k in bb and bb[k] != arm for k, arm in aa.items()):
                        continue
                if any(s_ == b[0] or v.cfg.reaches_without(s_, b[0], redefs) for s_ in start):
                    n_checked += 1
                    res.violation(rule, f, norm(b[1])[:100], name, f"`{name}` may be a generator (see its definition) and was consumed in full by `{norm(a[1])[:60]}`: this second use sees an empty iterator (a membership test is then always False, a loop runs zero times)", loc(fi, b[1]))
                    break
    if n_checked == 0:
        res.ok(rule, f, "no local generator consumed twice", "scan", loc(fi, fi.node))


def check_stale_in_loop(ctx, res: Result, dotted, rule="G-STALE"):
    """Inside a loop, a local that is only ever assigned inside the loop body is read on a path of the iteration that has not
    assigned it: the value it has there was computed for an EARLIER item (or it is unbound).  Accumulators (initialised before
    the loop) and loop targets are what is meant to be carried from one iteration to the next; nothing else is."""
    v = ctx.view(dotted)
    fi = v.fi
    f = fi.short
    res.rules.setdefault(rule, "inside a loop no local is read on a path of the iteration that did not assign it, unless it was initialised before the loop (no value computed for an earlier item is used for the current one)")
    params = {a.arg for a in fi.params} | {a.arg for a in fi.node.args.kwonlyargs}
    n_found = 0

    def stores_in(node):
        out = {}
        for n in ast.walk(node):
            if isinstance(n, ast.Name) and isinstance(n.ctx, ast.Store):
                out.setdefault(n.id, []).append(n)
        return out

    loops = [n for n in walk_no_nested(fi.node) if isinstance(n, (ast.For, ast.While))]
    reported = set()
    for lp in loops:
        hid = v.cfg.by_ast.get(id(lp)) if isinstance(lp, ast.For) else v.cfg.by_ast.get(id(lp.test))
        if hid is None:
            continue
        body_nodes = [y for st in lp.body for y in ast.walk(st)]
        body_ids = {id(y) for y in body_nodes}
        inner = stores_in(ast.Module(body=lp.body, type_ignores=[]))
        target_names = {x.id for x in ast.walk(lp.target) if isinstance(x, ast.Name)} if isinstance(lp, ast.For) else set()
        # comprehension variables are local to their comprehension
        comp_vars = {x.id for y in body_nodes if isinstance(y, ast.comprehension) for x in ast.walk(y.target) if isinstance(x, ast.Name)}
        for name, sts in inner.items():
            if name in params or name in target_names or name in comp_vars or name in reported:
                continue
            # defined anywhere outside this loop's body?  then carrying it is (possibly) deliberate
            outside = [n for n in ast.walk(fi.node) if isinstance(n, ast.Name) and isinstance(n.ctx, ast.Store) and n.id == name and id(n) not in body_ids]
            if outside:
                continue
            def_ids = set()
            for s_ in sts:
                st_ = v.stmt_of(s_)
                # a nested loop's target is (re)assigned at that loop's head
                holder = v.enclosing(s_, (ast.For,))
                if holder is not None and holder is not lp and any(s_ is y for y in ast.walk(holder.target)):
                    cid = v.cfg.by_ast.get(id(holder))
                else:
                    cid = v.cfg_id(st_) if st_ is not None else None
                if cid is not None:
                    def_ids.add(cid)
            if not def_ids:
                continue
            for u in body_nodes:
                if not (isinstance(u, ast.Name) and isinstance(u.ctx, ast.Load) and u.id == name):
                    continue
                uid = v.cfg_id(u)
                if uid is None or uid in def_ids:
                    # (a statement that both reads and writes the name: `x = f(x)` - reads the previous value)
                    if uid in def_ids and not any(isinstance(a_, ast.AugAssign) for a_ in [v.stmt_of(u)]):
                        pass
                    continue
                starts = v.cfg.succ(hid, "iter") if isinstance(lp, ast.For) else v.cfg.succ(hid, "T")
                # (a value deliberately carried to the NEXT iteration - `prev = x` at the end of the body - is assigned after its
                # use; what is reported is a use that an assignment EARLIER in the same iteration is meant to feed)
                fed_in_iteration = any(v.cfg.reaches_without(d_, uid, {hid}) for d_ in def_ids)
                if fed_in_iteration and any(s0 == uid or (s0 not in def_ids and v.cfg.reaches_without(s0, uid, def_ids)) for s0 in starts):
                    n_found += 1
                    reported.add(name)
                    res.violation(rule, f, norm(v.stmt_of(u) or u)[:100], name, f"`{name}` is assigned only inside this loop, and this use can be reached in an iteration that did not assign it: it then still holds the value computed for an earlier item (or is unbound on the first one)", loc(fi, u))
                    break
    if n_found == 0:
        res.ok(rule, f, "no stale loop-local value", "scan", loc(fi, fi.node))


def check_pack(ctx, res: Result, prop_id: str):
    """The general-purpose lints of this module over EVERY function of the property's anchor files (and of the private
    implementation modules they import): G-STALE, G-REUSE, N-FANCYAUG, G-GROUPBY, E-SHARED.  Each is a positive pattern - it
    reports a construct, never an absence - so it can be run where no rule of the property was written for the function.
    Only the findings (and one summary line per lint) are copied into the result."""
    import json as _json
    import os as _os

    from .effects import check_shared_literals
    from .report import VERIF_DIR

    files = []
    try:
        for line in open(_os.path.join(VERIF_DIR, "properties.jsonl"), encoding="utf-8"):
            p = _json.loads(line)
            if p.get("id") == prop_id:
                files = list((p.get("anchors") or {}).get("files") or [])
    except OSError:
        files = []
    mods = [m for m in ctx.prog.modules.values() if m.relpath in files]
    for m in list(mods):
        for imp in m.imports.values():
            if imp[0] == "symbol" and imp[1] in ctx.prog.modules and imp[1].split(".")[-1].startswith("_") and ctx.prog.modules[imp[1]] not in mods:
                mods.append(ctx.prog.modules[imp[1]])
    fis = [fi for fi in ctx.prog.functions.values() if fi.module in mods]
    lints = (("G-STALE", check_stale_in_loop), ("G-REUSE", check_iterator_reuse), ("N-FANCYAUG", check_fancy_augassign), ("G-GROUPBY", check_groupby_sorted), ("E-SHARED", check_shared_literals), ("G-LIVEITER", check_mutation_while_iterating), ("E-DEFAULTARG", check_mutable_defaults), ("G-KEYPROJ", check_key_projection), ("K-OWNER", check_id_owner), ("G-COUNTERADD", check_counter_arith), ("G-ZEROBUCKET", check_zero_buckets), ("G-LENVALID", check_len_validated_cache), ("G-SHAPEGUESS", check_layout_guess), ("K-LABELTYPE", check_label_type_dispatch), ("G-ZIPALIGN", check_zip_alignment), ("G-TRUTHY0", check_truthy_index), ("G-PYTRAP", check_python_traps), ("G-LOSSYKEY", check_lossy_keys), ("G-TRISTATE", check_tristate_flag), ("N-TRACEMUL", check_trace_of_elementwise), ("G-REUSEDREC", check_reused_record), ("G-LOOPLEAK", check_loop_leak), ("G-ACCRESET", check_accumulator_reset), ("G-ARGSWAP", check_swapped_arguments), ("K-SORTPAIR", check_sorted_pair), ("K-ROLEMEM", check_role_membership), ("G-ORFLAG", check_or_merged_flag), ("G-ORGET", check_falsy_fallback), ("G-HASHABLE", check_hashable_dispatch), ("K-PAIRLEN", check_len_of_pair), ("G-EMPTYNONE", check_empty_as_missing), ("E-SETDEFAULT", check_setdefault_shared), ("G-CONSECPAIR", check_consecutive_pairs))
    seen_keys = {(o.rule, o.func, o.stmt) for o in res.obs}
    for rule, fn in lints:
        n_f = n_v = 0
        for fi in fis:
            tmp = Result(res.prop if hasattr(res, "prop") else prop_id)
            try:
                fn(ctx, tmp, fi)
            except Exception:
                continue
            n_f += 1
            for o in tmp.obs:
                if o.status == "violation" and (o.rule, o.func, o.stmt) not in seen_keys:
                    seen_keys.add((o.rule, o.func, o.stmt))
                    res.obs.append(o)
                    n_v += 1
            for r_, d_ in tmp.rules.items():
                res.rules.setdefault(r_, d_)
        res.rules.setdefault(rule, "general lint (see hgxverif/lints.py)")
        res.ok(rule, prop_id, f"{n_f} functions of the property's files scanned", "pack", ",".join(sorted(m.relpath for m in mods))[:200])


def check_mutation_while_iterating(ctx, res: Result, dotted, rule="G-LIVEITER"):
    """`for x in C:` over a live container (no list() / sorted() / .copy() / .items() snapshot of a different object) whose body
    removes elements from the very same container expression: the iteration skips elements (lists) or raises (dicts / sets)."""
    v = ctx.view(dotted)
    fi = v.fi
    res.rules.setdefault(rule, "no loop removes elements from the very container expression it iterates (iterate a snapshot: list(c) / c.copy())")
    found = 0
    for lp in walk_no_nested(fi.node):
        if not isinstance(lp, ast.For):
            continue
        it = lp.iter
        if isinstance(it, ast.Call) and isinstance(it.func, ast.Attribute) and it.func.attr in ("keys", "values", "items") and not it.args:
            base, view_of_dict = it.func.value, True
        else:
            base, view_of_dict = it, False
        if not isinstance(base, (ast.Name, ast.Attribute, ast.Subscript)):
            continue
        text = norm(base)
        if isinstance(base, ast.Name) and base.id in {a.arg for a in fi.params} and not view_of_dict:
            pass
        hits = []
        for n in ast.walk(ast.Module(body=lp.body, type_ignores=[])):
            if isinstance(n, ast.Call) and isinstance(n.func, ast.Attribute) and n.func.attr in ("remove", "pop", "discard", "clear", "popitem") and norm(n.func.value) == text:
                hits.append(n)
            if isinstance(n, ast.Delete) and any(isinstance(t, ast.Subscript) and norm(t.value) == text for t in n.targets):
                hits.append(n)
        for h in hits:
            # leaving the loop right after the removal is the safe idiom (`remove(x); break` / `return`)
            st = v.stmt_of(h)
            blk = v.parent.get(id(st))
            body = None
            for fld in ("body", "orelse"):
                if isinstance(getattr(blk, fld, None), list) and any(x is st for x in getattr(blk, fld)):
                    body = getattr(blk, fld)
            after = body[body.index(st) + 1 :] if body and st in body else []
            leaves = any(isinstance(x, (ast.Break, ast.Return, ast.Raise)) for x in after[:2])
            found += 1
            res.add(rule, fi.short, norm(h)[:100], text[:40], "unknown" if leaves else "violation", "the loop is left right after the removal" if leaves else f"the loop iterates `{norm(lp.iter)[:50]}` and removes elements from it in its body: a list then skips the element after each removed one, a dict / set raises `changed size during iteration`", loc(fi, h))
    if not found:
        res.ok(rule, fi.short, "no loop shrinks the container it iterates", "scan", loc(fi, fi.node))


def check_mutable_defaults(ctx, res: Result, dotted, rule="E-DEFAULTARG"):
    """A mutable default argument (`def f(x, acc=[])`, `meta={}`) that the function mutates or stores is one object shared by
    all calls."""
    v = ctx.view(dotted)
    fi = v.fi
    res.rules.setdefault(rule, "a mutable default argument is neither mutated nor stored by the function (one object would be shared by all calls)")
    found = 0
    for pname, d in fi.defaults().items():
        mutable = isinstance(d, (ast.List, ast.Dict, ast.Set)) or (isinstance(d, ast.Call) and isinstance(d.func, ast.Name) and d.func.id in ("list", "dict", "set", "defaultdict", "Counter") and not d.args)
        if not mutable:
            continue
        rebound = any(isinstance(n, ast.Name) and n.id == pname and isinstance(n.ctx, ast.Store) for n in walk_no_nested(fi.node))
        uses = []
        for n in walk_no_nested(fi.node):
            if isinstance(n, ast.Call) and isinstance(n.func, ast.Attribute) and isinstance(n.func.value, ast.Name) and n.func.value.id == pname and n.func.attr in ("append", "extend", "add", "update", "setdefault", "pop", "remove", "insert", "clear", "discard"):
                uses.append(n)
            if isinstance(n, (ast.Assign, ast.AugAssign)):
                tg = n.targets if isinstance(n, ast.Assign) else [n.target]
                if any(isinstance(t, ast.Subscript) and isinstance(t.value, ast.Name) and t.value.id == pname for t in tg):
                    uses.append(n)
                if isinstance(n, ast.Assign) and isinstance(n.value, ast.Name) and n.value.id == pname and any(isinstance(t, (ast.Attribute, ast.Subscript)) for t in n.targets):
                    uses.append(n)  # stored by reference: self.x = param / table[k] = param
        if uses and not rebound:
            found += 1
            res.violation(rule, fi.short, norm(uses[0])[:100], pname, f"the default of `{pname}` is a mutable literal and the function mutates / stores it: every call that relies on the default shares (and grows) the same object", loc(fi, uses[0]))
    if not found:
        res.ok(rule, fi.short, "no mutable default argument is mutated or stored", "scan", loc(fi, fi.node))


def check_key_projection(ctx, res: Result, dotted, rule="G-KEYPROJ"):
    """A loop over (time, hyperedge) / (hyperedge, layer) records that ASSIGNS (does not accumulate) a weight into a local
    table whose key keeps the hyperedge but drops the time / layer (or keeps it only through `//`, `%`, a comparison): two
    records that differ only in the dropped component land on the same key and the later weight replaces the earlier one.
    The containers merge such repeats by SUMMING the weights (add_edge); a bucket table that overwrites loses weight."""
    from .kinds import Atom, Seq, Tup, elem_of

    v = ctx.view(dotted)
    fi = v.fi
    f = fi.short
    res.rules.setdefault(rule, "records that are merged after their time / layer component is dropped have their weights summed (fed to add_edge one by one), never overwritten in a table keyed by the remaining components")
    n = 0
    for lp in walk_no_nested(fi.node):
        if not (isinstance(lp, ast.For) and isinstance(lp.target, (ast.Tuple, ast.List)) and all(isinstance(e, ast.Name) for e in lp.target.elts)):
            continue
        try:
            k = elem_of(v.kind(lp.iter))
        except Exception:
            continue
        if not (isinstance(k, Tup) and len(k.items) == len(lp.target.elts)):
            continue
        dropped = [e.id for e, i in zip(lp.target.elts, k.items) if isinstance(i, Atom) and i.name in ("TIME", "LAYER")]
        kept = [e.id for e, i in zip(lp.target.elts, k.items) if isinstance(i, Seq)]
        if not dropped or not kept:
            continue
        for st in [y for s in lp.body for y in ast.walk(s)]:
            if not (isinstance(st, ast.Assign) and len(st.targets) == 1 and isinstance(st.targets[0], ast.Subscript)):
                continue
            if v.enclosing(st, (ast.For, ast.While)) is not lp:
                continue
            slices, base = [], st.targets[0]
            while isinstance(base, ast.Subscript):
                slices.append(base.slice)
                base = base.value
            if not isinstance(base, ast.Name) or base.id in {a.arg for a in fi.params}:
                continue  # only local bucket tables (a table of self / a parameter has its own rules)
            names = lambda e: {x.id for x in ast.walk(e) if isinstance(x, ast.Name)}
            if not any(names(s) & set(kept) for s in slices):
                continue

            def injective_use(s, d):
                """`d` occurs in the slice as itself (a bare name or an element of a tuple display), not only under arithmetic"""
                if isinstance(s, ast.Name):
                    return s.id == d
                if isinstance(s, ast.Tuple):
                    return any(injective_use(e, d) for e in s.elts)
                return False

            lost = [d for d in dropped if not any(injective_use(s, d) for s in slices)]
            if not lost:
                continue
            val = v.inline(st.value, depth=2)
            if base.id in names(val):
                continue  # `t[k] = t.get(k, 0) + w`: an accumulation
            carries_weight = False
            for x in ast.walk(val):
                if isinstance(x, (ast.Call, ast.Subscript)):
                    try:
                        kk = v.kind(getattr(x, "_orig", x))
                    except Exception:
                        continue
                    if isinstance(kk, Atom) and kk.name == "WEIGHT":
                        carries_weight = True
            if not carries_weight:
                continue
            n += 1
            res.violation(rule, f, norm(st)[:100], ",".join(lost), f"records (… {', '.join(kept)} …) are bucketed under a key that drops `{lost[0]}`; the weight is assigned, not added: of several records of one node set that fall into the same bucket only the last weight survives (add_edge would have summed them)", loc(fi, st))
    if n == 0:
        res.ok(rule, f, "no overwriting bucket table keyed by a projection of the record key", "scan", loc(fi, fi.node))


def check_id_owner(ctx, res: Result, dotted, rule="K-OWNER"):
    """Hyperedge ids are private to one container object: `A._weights[B._edge_list[key]]` (an id-keyed table of one object
    indexed by the id that ANOTHER object assigned to the key) reads / writes the record of an unrelated hyperedge."""
    from . import tables as T

    v = ctx.view(dotted)
    fi = v.fi
    f = fi.short
    res.rules.setdefault(rule, "an id-keyed table (_weights, _edge_metadata, _reverse_edge_list, incidence lists) of one object is indexed only by ids of the same object's edge index")
    n = 0

    def root(e):
        return e.value if isinstance(e, ast.Attribute) and isinstance(e.value, ast.Name) else None

    def same_object(a: ast.Name, b: ast.Name):
        if a.id == b.id:
            return True
        for x, y in ((a, b), (b, a)):
            r = v.resolve(x)
            if isinstance(r, ast.Name) and r.id == y.id:
                return True
        # either name assigned more than once / from something that may be the other object: not decided
        params = {p.arg for p in fi.params}

        def fresh(x):
            # a freshly constructed object (`h = Hypergraph(...)`, every definition of the name) is no object that existed before
            defs = [s for s in walk_no_nested(fi.node) if isinstance(s, ast.Assign) and any(isinstance(t, ast.Name) and t.id == x.id for t in s.targets)]
            stores = [s for s in ast.walk(fi.node) if isinstance(s, ast.Name) and isinstance(s.ctx, ast.Store) and s.id == x.id]
            return bool(defs) and len(stores) == len(defs) and x.id not in params and all(isinstance(d.value, ast.Call) and isinstance(d.value.func, ast.Name) and d.value.func.id[:1].isupper() for d in defs)

        fa, fb = fresh(a), fresh(b)
        if fa and fb:
            return False
        # one fresh object against `self` / a parameter: different objects; anything else (two parameters, loop variables,
        # re-assigned locals) may alias
        return not ((fa and b.id in params) or (fb and a.id in params))

    for sub in walk_no_nested(fi.node):
        if not (isinstance(sub, ast.Subscript) and isinstance(sub.value, ast.Attribute) and sub.value.attr in T.EDGE_ID_TABLES):
            continue
        a = root(sub.value)
        if a is None:
            continue
        idx = sub.slice
        if isinstance(idx, ast.Name):
            idx = v.inline(idx, depth=1)
        if isinstance(idx, ast.Subscript) and isinstance(idx.value, ast.Attribute) and idx.value.attr == T.EDGE_KEY_TABLE:
            b = root(idx.value)
            if b is None or same_object(a, b):
                continue
            n += 1
            res.violation(rule, f, norm(sub)[:100], f"{a.id}/{b.id}", f"`{a.id}.{sub.value.attr}` is indexed by the id that `{b.id}` assigned to the hyperedge: ids are per object, the record of a different hyperedge of `{a.id}` is addressed (or a KeyError is raised)", loc(fi, sub))
    if n == 0:
        res.ok(rule, f, "no id-keyed table indexed through another object's edge index", "scan", loc(fi, fi.node))


def check_counter_arith(ctx, res: Result, dotted, rule="G-COUNTERADD"):
    """collections.Counter arithmetic (`+`, `+=`, `-`, `-=`, `|`, `&`) keeps only STRICTLY POSITIVE totals: used to accumulate a
    mapping of scores (values taken from another mapping, not occurrence counts) it silently drops every key whose total is 0 or
    negative.  Counter.update() / an explicit loop keep them."""
    v = ctx.view(dotted)
    fi = v.fi
    f = fi.short
    res.rules.setdefault(rule, "score mappings are not accumulated with Counter arithmetic (`+=` on Counters drops keys whose total is not strictly positive); Counter.update or an explicit loop is used")
    n = 0

    def is_counter_ctor(e):
        return isinstance(e, ast.Call) and ((isinstance(e.func, ast.Name) and e.func.id == "Counter") or (isinstance(e.func, ast.Attribute) and e.func.attr == "Counter"))

    def from_mapping(e):
        """Counter(<mapping with arbitrary values>)"""
        if not is_counter_ctor(e) or len(e.args) != 1:
            return False
        a = e.args[0]
        if isinstance(a, ast.Name):
            a = v.inline(a, depth=1)
        if isinstance(a, ast.DictComp):
            return not (isinstance(a.value, ast.Constant) and isinstance(a.value.value, (int, float)) and a.value.value > 0)
        if isinstance(a, ast.Dict):
            return not all(isinstance(x, ast.Constant) and isinstance(x.value, (int, float)) and x.value > 0 for x in a.values)
        if isinstance(a, ast.Call) and isinstance(a.func, ast.Name) and a.func.id == "dict":
            return True
        return False

    for st in walk_no_nested(fi.node):
        ops = []
        if isinstance(st, ast.AugAssign) and isinstance(st.op, (ast.Add, ast.Sub, ast.BitOr, ast.BitAnd)):
            ops = [(st.target, st.value, st)]
        elif isinstance(st, ast.BinOp) and isinstance(st.op, (ast.Add, ast.Sub, ast.BitOr, ast.BitAnd)):
            ops = [(st.left, st.right, st)]
        for left, right, node in ops:
            sides = [left, right]
            resolved = [v.inline(x, depth=1) if isinstance(x, ast.Name) and isinstance(x.ctx, ast.Load) else x for x in sides]
            for i_, x in enumerate(sides):
                if isinstance(x, ast.Name) and not is_counter_ctor(resolved[i_]):
                    ds = [a for a in walk_no_nested(fi.node) if isinstance(a, ast.Assign) and len(a.targets) == 1 and isinstance(a.targets[0], ast.Name) and a.targets[0].id == x.id]
                    if ds and all(is_counter_ctor(a.value) for a in ds):
                        resolved[i_] = ds[0].value
            if any(from_mapping(x) for x in resolved) and all(is_counter_ctor(x) for x in resolved):
                # values known to be strictly positive: closeness in a bipartite projection (every vertex of it has a neighbour;
                # snapshots hold no isolated nodes) - the construct then loses nothing
                srcs = set()
                for x in resolved:
                    for y in ast.walk(x):
                        if isinstance(y, ast.Name) and isinstance(y.ctx, ast.Load):
                            for a in walk_no_nested(fi.node):
                                if isinstance(a, ast.Assign) and any(isinstance(t_, ast.Name) and t_.id == y.id for tg in a.targets for t_ in ast.walk(tg)):
                                    for z in ast.walk(a.value):
                                        if isinstance(z, ast.Call):
                                            srcs.add(norm(z.func).split(".")[-1])
                                        if isinstance(z, ast.Name):
                                            for b in walk_no_nested(fi.node):
                                                if isinstance(b, ast.Assign) and any(isinstance(t_, ast.Name) and t_.id == z.id for tg in b.targets for t_ in ast.walk(tg)):
                                                    srcs |= {norm(w.func).split(".")[-1] for w in ast.walk(b.value) if isinstance(w, ast.Call)}
                if "closeness_centrality" in srcs and "bipartite_projection" in srcs and "line_graph" not in srcs:
                    res.unknown(rule, f, norm(node)[:100], "drops-nonpositive", "Counter arithmetic drops non-positive totals; the scores accumulated here are closeness values in a bipartite projection, which are positive", loc(fi, node))
                    n += 1
                    continue
                n += 1
                res.violation(rule, f, norm(node)[:100], "drops-nonpositive", "Counter `+` / `+=` keeps only keys whose total is strictly positive: a key whose accumulated score is 0 (a hyperedge isolated in every snapshot has closeness 0) disappears from the result instead of being reported with value 0", loc(fi, node))
    if n == 0:
        res.ok(rule, f, "no Counter arithmetic on score mappings", "scan", loc(fi, fi.node))


def check_zero_buckets(ctx, res: Result, dotted, rule="G-ZEROBUCKET"):
    """A per-key counter table of an object (`self._t[k] -= 1` somewhere in the class) from which no method ever deletes a key:
    a bucket that went down to zero stays in the table.  Asking the table how many keys it has (`len(self._t)`) or whether a key
    is in it (`k in self._t`) then answers for every key that EVER had a count, not for those that have one now."""
    v = ctx.view(dotted)
    fi = v.fi
    f = fi.short
    res.rules.setdefault(rule, "the key set of a counter table that is decremented but never pruned is not used as `the keys that have a count now` (len / membership)")
    n = 0
    cls = fi.cls
    if cls is None:
        res.ok(rule, f, "not a method", "scan", loc(fi, fi.node))
        return

    def self_attr(e):
        return e.attr if isinstance(e, ast.Attribute) and isinstance(e.value, ast.Name) and e.value.id == "self" else None

    uses = []
    for x in walk_no_nested(fi.node):
        if isinstance(x, ast.Call) and isinstance(x.func, ast.Name) and x.func.id == "len" and len(x.args) == 1 and self_attr(x.args[0]):
            uses.append((self_attr(x.args[0]), x))
        if isinstance(x, ast.Compare) and len(x.ops) == 1 and isinstance(x.ops[0], (ast.In, ast.NotIn)) and self_attr(x.comparators[0]):
            uses.append((self_attr(x.comparators[0]), x))
    for attr, use in uses:
        dec = pruned = False
        for m in cls.methods.values():
            for y in ast.walk(m.node):
                if isinstance(y, ast.AugAssign) and isinstance(y.op, ast.Sub) and isinstance(y.target, ast.Subscript) and self_attr(y.target.value) == attr:
                    dec = True
                if isinstance(y, ast.Delete) and any(isinstance(t, ast.Subscript) and self_attr(t.value) == attr for t in y.targets):
                    pruned = True
                if isinstance(y, ast.Call) and isinstance(y.func, ast.Attribute) and y.func.attr in ("pop", "popitem") and self_attr(y.func.value) == attr:
                    pruned = True
                # the table rebuilt without its zero entries: `self._t = {k: c for k, c in self._t.items() if c}`
                if isinstance(y, ast.Assign) and any(self_attr(t) == attr for t in y.targets) and isinstance(y.value, ast.DictComp) and y.value.generators and y.value.generators[0].ifs:
                    pruned = True
        if isinstance(use, ast.Compare):
            # `k in self._t` right before `self._t[k] -= 1` / `+= 1` is bookkeeping, not a query
            st = v.stmt_of(use)
            if isinstance(st, (ast.If, ast.While)) or st is None:
                iff = v.enclosing(use, (ast.If,)) if st is None else st
                body = [z for b in (getattr(iff, "body", []) + getattr(iff, "orelse", [])) for z in ast.walk(b)] if iff is not None else []
                if any(isinstance(z, (ast.AugAssign, ast.Assign)) and any(isinstance(t, ast.Subscript) and self_attr(t.value) == attr for t in ([z.target] if isinstance(z, ast.AugAssign) else z.targets)) for z in body):
                    continue
        if dec and not pruned:
            n += 1
            res.violation(rule, f, norm(use)[:100], attr, f"`self.{attr}` is a counter table that is decremented (`self.{attr}[k] -= ...`) and never pruned: a key whose count fell to zero stays in it, so `{norm(use)[:50]}` answers for every key that ever had a count, not for those that have one now", loc(fi, use))
    if n == 0:
        res.ok(rule, f, "no key-set query on an unpruned counter table", "scan", loc(fi, fi.node))


def check_len_validated_cache(ctx, res: Result, dotted, rule="G-LENVALID"):
    """A remembered value (read from a module-level table, a WeakKeyDictionary, an attribute of self) is reused unless its
    LENGTH differs from the length of what it was computed from, and refreshed (stored back) otherwise: two different
    contents of equal size are indistinguishable to that test, so an edit that keeps the size (remove one node, add another)
    leaves the stale value in use."""
    v = ctx.view(dotted)
    fi = v.fi
    f = fi.short
    res.rules.setdefault(rule, "a remembered value is not judged up to date by comparing its length with the length of its source (equal size is not equal content)")
    n = 0

    def root_name(e):
        while isinstance(e, (ast.Attribute, ast.Subscript)):
            e = e.value
        return e if isinstance(e, ast.Name) else None

    def remembered_source(name):
        """the container / attribute a local was read from: `x = C.get(k)`, `x = C[k]`, `x = self._attr`"""
        defs = [a for a in walk_no_nested(fi.node) if isinstance(a, ast.Assign) and len(a.targets) == 1 and isinstance(a.targets[0], ast.Name) and a.targets[0].id == name]
        for a in defs:
            val = a.value
            if isinstance(val, ast.Call) and isinstance(val.func, ast.Attribute) and val.func.attr == "get" and val.args:
                return norm(val.func.value)
            if isinstance(val, ast.Subscript):
                return norm(val.value)
            if isinstance(val, ast.Attribute) and isinstance(val.value, ast.Name) and val.value.id == "self":
                return norm(val)
            if isinstance(val, ast.Call) and isinstance(val.func, ast.Name) and val.func.id == "getattr" and len(val.args) >= 2 and isinstance(val.args[1], ast.Constant):
                return f"{norm(val.args[0])}.{val.args[1].value}"
        return None

    for iff in walk_no_nested(fi.node):
        if not isinstance(iff, ast.If):
            continue
        for c in ast.walk(iff.test):
            if not (isinstance(c, ast.Compare) and len(c.ops) == 1 and isinstance(c.ops[0], (ast.Eq, ast.NotEq))):
                continue
            sides = [c.left, c.comparators[0]]
            if not all(isinstance(x, ast.Call) and isinstance(x.func, ast.Name) and x.func.id == "len" and len(x.args) == 1 for x in sides):
                continue
            for a, b in ((sides[0], sides[1]), (sides[1], sides[0])):
                r = root_name(a.args[0])
                if r is None or r.id == "self":
                    src = norm(a.args[0]) if r is not None and isinstance(a.args[0], ast.Attribute) and r.id == "self" and "cache" in norm(a.args[0]).lower() else None
                else:
                    src = remembered_source(r.id)
                if src is None:
                    continue
                # the value is stored back into the same place somewhere in the function (a refresh): it is a cache
                refreshed = False
                for st in walk_no_nested(fi.node):
                    if isinstance(st, ast.Assign):
                        for t in st.targets:
                            if (isinstance(t, ast.Subscript) and norm(t.value) == src) or (isinstance(t, ast.Attribute) and norm(t) == src):
                                refreshed = True
                    if isinstance(st, ast.Call) and isinstance(st.func, ast.Name) and st.func.id == "setattr" and len(st.args) >= 2 and isinstance(st.args[1], ast.Constant) and f"{norm(st.args[0])}.{st.args[1].value}" == src:
                        refreshed = True
                if not refreshed:
                    continue
                n += 1
                res.violation(rule, f, norm(c)[:100], src, f"the value remembered in `{src}` is taken to be up to date when `{norm(c)[:60]}` says the sizes agree: after an edit that keeps the size (one item removed, another added) the stale value is reused", loc(fi, c))
                break
    # the same with a size FINGERPRINT: `shape = (HG.num_nodes(), HG.num_edges()); if entry is None or entry[0] != shape: <refresh>`
    def size_only(e):
        e = v.inline(e, depth=2)
        if isinstance(e, ast.Tuple) and e.elts:
            return all(size_only(x) for x in e.elts)
        if isinstance(e, ast.Call) and isinstance(e.func, ast.Name) and e.func.id == "len":
            return True
        return isinstance(e, ast.Call) and isinstance(e.func, ast.Attribute) and e.func.attr in ("num_nodes", "num_edges", "__len__") and not e.args

    for iff in walk_no_nested(fi.node) if n == 0 else ():
        if not isinstance(iff, ast.If):
            continue
        for c in ast.walk(iff.test):
            if not (isinstance(c, ast.Compare) and len(c.ops) == 1 and isinstance(c.ops[0], (ast.Eq, ast.NotEq))):
                continue
            for a, b in ((c.left, c.comparators[0]), (c.comparators[0], c.left)):
                r = root_name(a)
                if r is None or r.id == "self" or not isinstance(a, (ast.Name, ast.Subscript)) or not size_only(b):
                    continue
                src = remembered_source(r.id)
                if src is None:
                    continue
                refreshed = any(isinstance(st, ast.Assign) and any(isinstance(t, ast.Subscript) and norm(t.value) == src for t in st.targets) for st in walk_no_nested(fi.node))
                if not refreshed:
                    continue
                n += 1
                res.violation(rule, f, norm(c)[:100], src, f"the value remembered in `{src}` is taken to be up to date when `{norm(c)[:60]}` holds, and `{norm(b)[:30]}` is made of sizes only ({norm(v.inline(b, depth=2))[:50]}): an edit that keeps the counts (one hyperedge replaced by another) leaves the stale value in use", loc(fi, c))
                break
    if n == 0:
        res.ok(rule, f, "no cache validated by its length", "scan", loc(fi, fi.node))


def check_layout_guess(ctx, res: Result, dotted, rule="G-SHAPEGUESS"):
    """`if X.shape[1] == N: X = X.T` - the orientation of a matrix argument is guessed from one component of its shape.  For a
    SQUARE matrix (as many hyperedges as nodes) both orientations pass the test, so a correctly oriented square input is
    transposed as well: the guess cannot be right for both layouts."""
    v = ctx.view(dotted)
    fi = v.fi
    f = fi.short
    res.rules.setdefault(rule, "the orientation of a matrix argument is not guessed from a component of its shape (a square matrix satisfies the test in both orientations)")
    n = 0
    for iff in walk_no_nested(fi.node):
        if not isinstance(iff, (ast.If, ast.IfExp)):
            continue
        subjects = set()
        for c in ast.walk(iff.test):
            if isinstance(c, ast.Compare) and len(c.ops) == 1 and isinstance(c.ops[0], (ast.Eq, ast.NotEq)):
                for side in (c.left, c.comparators[0]):
                    if isinstance(side, ast.Subscript) and isinstance(side.value, ast.Attribute) and side.value.attr == "shape" and isinstance(side.slice, ast.Constant):
                        subjects.add(norm(side.value.value))
        if not subjects:
            continue
        # `if X.shape[0] != N and X.shape[1] == N:` (or an earlier test of the other component) excludes the square case: only a
        # lone test of ONE component is a guess
        n_shape = sum(1 for c in ast.walk(iff.test) if isinstance(c, ast.Attribute) and c.attr == "shape" and norm(c.value) in subjects)
        earlier = [i for i in walk_no_nested(fi.node) if isinstance(i, (ast.If, ast.IfExp, ast.Assert)) and i is not iff and getattr(i, "lineno", 0) < getattr(iff, "lineno", 0) and any(isinstance(c, ast.Attribute) and c.attr == "shape" and norm(c.value) in subjects for c in ast.walk(i.test))]
        if n_shape != 1 or earlier:
            continue
        arms = (iff.body + iff.orelse) if isinstance(iff, ast.If) else [iff.body, iff.orelse]
        for arm in arms:
            for x in ast.walk(arm):
                t = None
                if isinstance(x, ast.Attribute) and x.attr == "T" and norm(x.value) in subjects:
                    t = x
                if isinstance(x, ast.Call) and isinstance(x.func, ast.Attribute) and x.func.attr == "transpose" and (norm(x.func.value) in subjects or (x.args and norm(x.args[0]) in subjects)):
                    t = x
                if t is not None:
                    n += 1
                    res.violation(rule, f, norm(iff.test)[:100], norm(t)[:40], f"`{norm(t)[:40]}` is applied when `{norm(iff.test)[:60]}`: the layout of the argument is guessed from one component of its shape, and a square matrix in the right layout passes the same test - it is transposed too and every quantity computed from it is wrong", loc(fi, iff))
                    break
            else:
                continue
            break
    if n == 0:
        res.ok(rule, f, "no orientation guessed from a shape component", "scan", loc(fi, fi.node))


def check_label_type_dispatch(ctx, res: Result, dotted, rule="K-LABELTYPE"):
    """`isinstance(x, tuple)` where `x` is a NODE LABEL (an element of a hyperedge): labels are arbitrary hashables - tuples
    (grid coordinates) are legal - so the type of a label says nothing about the structure it sits in.  Code that decides
    `directed (source, target) pair` vs `two nodes` that way mis-reads a size-2 hyperedge over tuple-labelled nodes."""
    from .kinds import Atom, strip_none

    v = ctx.view(dotted)
    fi = v.fi
    f = fi.short
    res.rules.setdefault(rule, "outside the containers' own canonicaliser, the structure of a hyperedge is never decided from the Python type of a node label (labels are opaque hashables; tuple labels are legal)")
    n = 0
    if fi.module.relpath.startswith("hypergraphx/core/"):
        # the canonicaliser of the temporal / multiplex containers (`_canon_edge`) tells a directed (source, target) pair from a
        # plain hyperedge by exactly this shape test: that is the containers' documented input convention, not a client's guess
        res.ok(rule, f, "container canonicaliser: shape convention of the input", "scan", loc(fi, fi.node))
        return
    for c in walk_no_nested(fi.node):
        if not (isinstance(c, ast.Call) and isinstance(c.func, ast.Name) and c.func.id == "isinstance" and len(c.args) == 2):
            continue
        tnames = {x.id for x in ast.walk(c.args[1]) if isinstance(x, ast.Name)}
        if not (tnames & {"tuple", "list", "set", "frozenset"}):
            continue
        try:
            k = strip_none(ctx.interp.kind_at(fi, c.args[0]))
        except Exception:
            continue
        if isinstance(k, Atom) and k.name == "NODE":
            # only a test that steers control flow / a value (not an assertion message)
            n += 1
            res.violation(rule, f, norm(c)[:100], norm(c.args[0])[:40], f"`{norm(c.args[0])[:40]}` is a node label here; `{norm(c)[:60]}` dispatches on its Python type, but labels are opaque (a hyperedge of two tuple-labelled nodes has exactly the shape of a (source, target) pair): such a hyperedge is taken apart into the components of its labels", loc(fi, c))
    # the same decision taken for a whole sequence: `len(e) == 2 and all(isinstance(part, (tuple, list)) for part in e)` reads "a
    # (source, target) pair" off the shape - an undirected hyperedge of two tuple-labelled nodes has exactly that shape
    for b in walk_no_nested(fi.node):
        if isinstance(b, ast.BoolOp) and isinstance(b.op, ast.And):
            lens = [x for x in b.values if isinstance(x, ast.Compare) and len(x.ops) == 1 and isinstance(x.ops[0], ast.Eq) and isinstance(x.left, ast.Call) and norm(x.left.func) == "len" and isinstance(x.comparators[0], ast.Constant) and x.comparators[0].value == 2]
            alls = [x for x in b.values if isinstance(x, ast.Call) and isinstance(x.func, ast.Name) and x.func.id == "all" and x.args and isinstance(x.args[0], (ast.GeneratorExp, ast.ListComp)) and isinstance(x.args[0].elt, ast.Call) and norm(x.args[0].elt.func) == "isinstance" and {y.id for y in ast.walk(x.args[0].elt.args[1]) if isinstance(y, ast.Name)} & {"tuple", "list"}]
            if lens and alls and norm(lens[0].left.args[0]) == norm(alls[0].args[0].generators[0].iter):
                n += 1
                res.violation(rule, f, norm(b)[:100], norm(lens[0].left.args[0])[:30], f"`{norm(b)[:70]}` takes a sequence for a (source, target) pair because it has two parts that are tuples: a hyperedge of two nodes with tuple labels (grid coordinates) has the same shape and is flattened into the union of its labels' components", loc(fi, b))
    if n == 0:
        res.ok(rule, f, "no dispatch on the type of a node label", "scan", loc(fi, fi.node))


def check_zip_alignment(ctx, res: Result, dotted, rule="G-ZIPALIGN"):
    """`zip(sorted(d), d.values())` / `zip(sorted(d.keys()), d.values())`: the i-th SMALLEST key is paired with the value that was
    inserted i-th.  The pairs are right only while the dict happens to have been filled in increasing key order."""
    v = ctx.view(dotted)
    fi = v.fi
    f = fi.short
    res.rules.setdefault(rule, "the keys and the values of one mapping are zipped in the same order (never sorted keys against values in insertion order)")
    n = 0

    def container_of(e):
        """(text of the mapping, which view of it, sorted?) for d / d.keys() / d.values() / d.items() / sorted(<one of these>)"""
        srt = False
        if isinstance(e, ast.Name):
            e = v.inline(e, depth=1)
        if isinstance(e, ast.Call) and isinstance(e.func, ast.Name) and e.func.id == "sorted" and e.args:
            srt = True
            e = e.args[0]
            if isinstance(e, ast.Name):
                e2 = v.inline(e, depth=1)
                e = e2 if e2 is not e else e
        if isinstance(e, ast.Call) and isinstance(e.func, ast.Name) and e.func.id in ("list", "tuple") and e.args:
            e = e.args[0]
        view = "keys"
        if isinstance(e, ast.Call) and isinstance(e.func, ast.Attribute) and e.func.attr in ("keys", "values", "items") and not e.args:
            view = e.func.attr
            e = e.func.value
        if isinstance(e, (ast.Name, ast.Attribute)):
            return norm(e), view, srt
        return None

    for c in walk_no_nested(fi.node):
        if not (isinstance(c, ast.Call) and isinstance(c.func, ast.Name) and c.func.id == "zip" and len(c.args) >= 2):
            continue
        parts = [container_of(a) for a in c.args]
        for i, a in enumerate(parts):
            for j, b in enumerate(parts):
                if i >= j or a is None or b is None:
                    continue
                if a[0] == b[0] and a[2] != b[2] and {a[1], b[1]} & {"values", "items"}:
                    n += 1
                    res.violation(rule, f, norm(c)[:100], a[0], f"`{norm(c)[:70]}` pairs the keys of `{a[0]}` in SORTED order with its values in INSERTION order: the i-th smallest key gets the i-th inserted value - right only while the mapping was filled in increasing key order (a snapshot table filled in the order in which times were first seen is not)", loc(fi, c))
    if n == 0:
        res.ok(rule, f, "no mis-aligned zip of a mapping with itself", "scan", loc(fi, fi.node))


def check_truthy_index(ctx, res: Result, dotted, rule="G-TRUTHY0"):
    """A local that starts as None and later holds a loop index / position (the variable of `for i in range(...)`, the counter of
    `enumerate`) is tested by truthiness: index 0 is falsy, so `if not best:` cannot tell `nothing stored yet` from `the first
    item is stored` - the first item's slot is treated as empty."""
    v = ctx.view(dotted)
    fi = v.fi
    f = fi.short
    res.rules.setdefault(rule, "a local that is None until it holds a loop index is tested with `is None`, never by truthiness (index 0 is falsy)")
    n = 0
    # loop indices: targets of `for i in range(..)`, first targets of `for i, x in enumerate(..)`
    idx_names = set()
    for lp in walk_no_nested(fi.node):
        if isinstance(lp, ast.For) and isinstance(lp.iter, ast.Call) and isinstance(lp.iter.func, ast.Name):
            if lp.iter.func.id == "range" and isinstance(lp.target, ast.Name):
                idx_names.add(lp.target.id)
            if lp.iter.func.id == "enumerate" and isinstance(lp.target, ast.Tuple) and lp.target.elts and isinstance(lp.target.elts[0], ast.Name):
                # enumerate(..., start=1) never yields 0
                if not any(kw.arg == "start" for kw in lp.iter.keywords) and len(lp.iter.args) < 2:
                    idx_names.add(lp.target.elts[0].id)
    cands = {}
    for a in walk_no_nested(fi.node):
        if isinstance(a, ast.Assign) and len(a.targets) == 1 and isinstance(a.targets[0], ast.Name):
            nm = a.targets[0].id
            if isinstance(a.value, ast.Constant) and a.value.value is None:
                cands.setdefault(nm, set()).add("none")
            elif isinstance(a.value, ast.Name) and a.value.id in idx_names:
                cands.setdefault(nm, set()).add("index")
            else:
                cands.setdefault(nm, set()).add("other")
    watch = {nm for nm, kinds_ in cands.items() if kinds_ == {"none", "index"}}
    if watch:
        from .rules_container import _atoms

        for t in walk_no_nested(fi.node):
            test = t.test if isinstance(t, (ast.If, ast.While, ast.IfExp)) else None
            if test is None:
                continue
            for atom, _pos in _atoms(test, True):
                if isinstance(atom, ast.Name) and atom.id in watch:
                    n += 1
                    res.violation(rule, f, norm(test)[:100], atom.id, f"`{atom.id}` is None until it is given a loop index, and `{norm(test)[:50]}` tests it by truthiness: index 0 counts as `nothing yet`, so whatever the first item stored is overwritten by the next one (the best-so-far bookkeeping forgets item 0)", loc(fi, t))
    if n == 0:
        res.ok(rule, f, "no truthiness test of a None-or-index local", "scan", loc(fi, fi.node))


def check_python_traps(ctx, res: Result, dotted, rule="G-PYTRAP"):
    """Three positive patterns that are wrong whenever they occur:
    (is-literal)  `x is 0` / `x is "a"` / `x is ()` - identity of a literal is an implementation accident (small-int / string
                  interning), the comparison is meant by value;
    (none-result) the result of an in-place list operation is used as a value: `xs = xs.sort()`, `return edges.reverse()`,
                  `for e in pool.extend(more)` - it is None;
    (late-bind)   a lambda / nested function created in a loop reads the loop variable and is STORED (appended, put in a dict,
                  returned) instead of being called in the same iteration: every stored function sees the last value."""
    v = ctx.view(dotted)
    fi = v.fi
    f = fi.short
    res.rules.setdefault(rule, "no identity test against a literal, no use of the (None) result of an in-place list operation, no loop-variable capture by a closure that outlives its iteration")
    n = 0
    for c in walk_no_nested(fi.node):
        if isinstance(c, ast.Compare) and any(isinstance(o, (ast.Is, ast.IsNot)) for o in c.ops):
            operands = [c.left] + list(c.comparators)
            # (a chained comparison `None is not w != 1`: only the operands of the identity operator itself count)
            sides = [x for i_, o in enumerate(c.ops) if isinstance(o, (ast.Is, ast.IsNot)) for x in (operands[i_], operands[i_ + 1])]
            for side in sides:
                lit = isinstance(side, ast.Constant) and side.value is not None and not isinstance(side.value, bool) and side.value is not Ellipsis
                lit = lit or (isinstance(side, (ast.Tuple, ast.List, ast.Dict, ast.Set)) and not getattr(side, "elts", getattr(side, "keys", [])))
                if not lit and not (isinstance(side, ast.Constant) and (side.value is None or isinstance(side.value, bool))):
                    # identity between two VALUES of a value kind (node labels, times, layers, weights, ids, sizes): equal labels /
                    # times are different objects as soon as they are computed or parsed (ints above 256, strings built at run time)
                    try:
                        from .kinds import Atom as _At, strip_none as _sn

                        k_ = _sn(ctx.interp.kind_at(fi, side))
                    except Exception:
                        k_ = None
                    other_none = any(isinstance(o_, ast.Constant) and (o_.value is None or isinstance(o_.value, bool)) for o_ in sides if o_ is not side)
                    # the other operand is a value too: a module-level sentinel object (`bound is _NO_HYPEREDGES`) is compared by
                    # identity on purpose
                    for o_ in sides:
                        if o_ is side or other_none:
                            continue
                        try:
                            ko_ = _sn(ctx.interp.kind_at(fi, o_))
                        except Exception:
                            ko_ = None
                        if not (isinstance(ko_, _At) and ko_.name in ("NODE", "TIME", "LAYER", "WEIGHT", "EID", "SIZE", "ORDER")) and not isinstance(o_, ast.Constant):
                            other_none = True
                    if isinstance(k_, _At) and k_.name in ("NODE", "TIME", "LAYER", "WEIGHT", "EID", "SIZE", "ORDER") and not other_none:
                        n += 1
                        res.violation(rule, f, norm(c)[:100], "is-value", f"`{norm(c)[:60]}` compares two {k_.name.lower()} values by IDENTITY: equal values are the same object only by accident of the interpreter (small ints, interned literals) - for labels / times that are computed or read from a file the test fails although the values are equal", loc(fi, c))
                        break
                if lit:
                    n += 1
                    res.violation(rule, f, norm(c)[:100], "is-literal", f"`{norm(c)[:60]}` tests IDENTITY with a literal: whether two equal ints / strings / empty tuples are the same object is an interpreter detail - the test is false for values that are merely equal (large ints, computed strings, numpy scalars)", loc(fi, c))
                    break

    def known_list(e):
        def is_list_expr(r):
            return isinstance(r, (ast.List, ast.ListComp)) or (isinstance(r, ast.Call) and isinstance(r.func, ast.Name) and r.func.id in ("list", "sorted"))

        if isinstance(e, ast.Name):
            defs = [a.value for a in walk_no_nested(fi.node) if isinstance(a, ast.Assign) and len(a.targets) == 1 and isinstance(a.targets[0], ast.Name) and a.targets[0].id == e.id]
            return bool(defs) and any(is_list_expr(d) for d in defs)
        return is_list_expr(e)

    for c in walk_no_nested(fi.node):
        if isinstance(c, ast.Call) and isinstance(c.func, ast.Attribute) and c.func.attr in ("sort", "reverse", "extend", "append", "insert") and known_list(c.func.value):
            par = v.parent.get(id(c))
            used = isinstance(par, (ast.Assign, ast.Return, ast.For, ast.comprehension, ast.AugAssign)) and not (isinstance(par, ast.For) and par.iter is not c) or (isinstance(par, ast.Call) and c in par.args)
            if isinstance(par, ast.Return) and par.value is not c:
                used = False
            if isinstance(par, ast.Assign) and par.value is not c:
                used = False
            if used:
                n += 1
                res.violation(rule, f, norm(par if not isinstance(par, ast.comprehension) else c)[:100], "none-result", f"`{norm(c)[:50]}` works in place and returns None; its result is used as a value here", loc(fi, c))
    for lp in walk_no_nested(fi.node):
        if not isinstance(lp, (ast.For, ast.While)):
            continue
        tv = {x.id for x in ast.walk(lp.target) if isinstance(x, ast.Name)} if isinstance(lp, ast.For) else set()
        if not tv:
            continue
        for fn in [y for st in lp.body for y in ast.walk(st) if isinstance(y, (ast.Lambda, ast.FunctionDef))]:
            params = {a.arg for a in fn.args.args + fn.args.kwonlyargs} | ({fn.args.vararg.arg} if fn.args.vararg else set()) | ({fn.args.kwarg.arg} if fn.args.kwarg else set())
            body = fn.body if isinstance(fn.body, list) else [fn.body]
            free = {x.id for b in body for x in ast.walk(b) if isinstance(x, ast.Name) and isinstance(x.ctx, ast.Load)} - params
            # default-argument binding `lambda x, i=i: ...` evaluates now: those names are parameters, already removed
            captured = free & tv
            if not captured:
                continue
            par = v.parent.get(id(fn)) if isinstance(fn, ast.Lambda) else None
            stored = False
            if isinstance(fn, ast.Lambda):
                # stored: appended / inserted / assigned into a container, or returned / yielded; not: passed to a call that runs now
                p = par
                if isinstance(p, ast.Call) and isinstance(p.func, ast.Attribute) and p.func.attr in ("append", "add", "insert", "setdefault") and fn in p.args:
                    stored = True
                if isinstance(p, ast.Assign) and any(isinstance(t, ast.Subscript) for t in p.targets):
                    stored = True
                if isinstance(p, (ast.Return, ast.Yield)):
                    stored = True
                if isinstance(p, ast.Dict):
                    stored = True
            else:
                # a nested def: stored when its NAME is appended / assigned into a container in the loop
                for y in [y for st in lp.body for y in ast.walk(st)]:
                    if isinstance(y, ast.Call) and isinstance(y.func, ast.Attribute) and y.func.attr in ("append", "add", "insert") and any(isinstance(a_, ast.Name) and a_.id == fn.name for a_ in y.args):
                        stored = True
                    if isinstance(y, ast.Assign) and any(isinstance(t, ast.Subscript) for t in y.targets) and isinstance(y.value, ast.Name) and y.value.id == fn.name:
                        stored = True
            if stored:
                n += 1
                res.violation(rule, f, norm(fn)[:100], "late-bind", f"the function created here reads the loop variable `{sorted(captured)[0]}` when it is CALLED, not when it is created, and it is stored for later: after the loop every stored function sees the last value", loc(fi, fn))
    if n == 0:
        res.ok(rule, f, "no identity test with a literal / used None result / late-bound loop variable", "scan", loc(fi, fi.node))


def check_lossy_keys(ctx, res: Result, dotted, rule="G-LOSSYKEY"):
    """A de-duplication / memo KEY built with set() / frozenset() forgets order AND multiplicity.  Three shapes in which what is
    forgotten is exactly what tells two records apart:
    (merged-parts) the set is taken over the concatenation of two components of ONE record (`frozenset(edge[0] + edge[1])`): which
                   component a member came from - source vs target - is lost, two different records collide;
    (multiset)     the set is taken over a SLICE of a tuple (`frozenset(t[2:])`): repeated values collapse, (2, 2, 1) and (2, 1, 1)
                   get one key;
    (nested)       a function that freezes a nested list recursively (`frozenset(key(x) if isinstance(x, list) else x for x in ...)`):
                   a [source, target] pair becomes an unordered pair of sets, so a record and its reverse collide."""
    v = ctx.view(dotted)
    fi = v.fi
    f = fi.short
    res.rules.setdefault(rule, "de-duplication / memo keys keep what distinguishes records: no set over merged components, over a slice with repeats, or over a recursively frozen [source, target] pair")
    n = 0

    def is_setcall(c):
        return isinstance(c, ast.Call) and isinstance(c.func, ast.Name) and c.func.id in ("frozenset", "set") and len(c.args) == 1

    def used_as_key(c):
        """the set expression (or a tuple containing it) is a dict key / set member / membership operand, or what a `*key*` function returns"""
        cur, par = c, v.parent.get(id(c))
        while isinstance(par, (ast.Tuple, ast.Starred)):
            cur, par = par, v.parent.get(id(par))
        if isinstance(par, ast.Subscript) and par.slice is cur:
            return True
        if isinstance(par, ast.Compare) and any(isinstance(o, (ast.In, ast.NotIn)) for o in par.ops) and par.left is cur:
            return True
        if isinstance(par, ast.Call) and isinstance(par.func, ast.Attribute) and par.func.attr in ("add", "setdefault", "get", "pop", "discard") and par.args and par.args[0] is cur:
            return True
        if isinstance(par, ast.Return) and ("key" in fi.name.lower() or "signature" in fi.name.lower()):
            return True
        if isinstance(par, ast.Assign) and len(par.targets) == 1 and isinstance(par.targets[0], ast.Name):
            nm = par.targets[0].id
            for u in walk_no_nested(fi.node):
                if isinstance(u, ast.Name) and u.id == nm and isinstance(u.ctx, ast.Load) and u is not cur:
                    pu = v.parent.get(id(u))
                    while isinstance(pu, ast.Tuple):
                        u, pu = pu, v.parent.get(id(pu))
                    if (isinstance(pu, ast.Subscript) and pu.slice is u) or (isinstance(pu, ast.Compare) and pu.left is u and any(isinstance(o, (ast.In, ast.NotIn)) for o in pu.ops)) or (isinstance(pu, ast.Call) and isinstance(pu.func, ast.Attribute) and pu.func.attr in ("add", "setdefault") and pu.args and pu.args[0] is u):
                        return True
        return False

    for c in walk_no_nested(fi.node):
        if not is_setcall(c):
            continue
        a = c.args[0]
        shape = None
        # merged parts: X[i] + X[j] / (*X[i], *X[j]) / chain(X[i], X[j])
        parts = []
        if isinstance(a, ast.BinOp) and isinstance(a.op, ast.Add):
            parts = [a.left, a.right]
        elif isinstance(a, (ast.Tuple, ast.List)) and a.elts and all(isinstance(e, ast.Starred) for e in a.elts):
            parts = [e.value for e in a.elts]
        elif isinstance(a, ast.Call) and norm(a.func).split(".")[-1] == "chain":
            parts = list(a.args)
        if len(parts) == 2 and all(isinstance(p_, ast.Subscript) and isinstance(p_.slice, ast.Constant) for p_ in parts) and norm(parts[0].value) == norm(parts[1].value) and parts[0].slice.value != parts[1].slice.value:
            shape = ("merged-parts", f"`{norm(c)[:50]}` merges two components of one record into a single set: which component a member belongs to (source vs target) is forgotten, so two different records over the same members get the same key and one of them is silently dropped / overwritten")
        elif isinstance(a, ast.Subscript) and isinstance(a.slice, ast.Slice):
            shape = ("multiset", f"`{norm(c)[:50]}` turns a slice of a tuple into a set: repeated values collapse, so tuples that differ only in how often a value occurs share one key (and one cached result)")
        elif isinstance(a, (ast.GeneratorExp, ast.ListComp)) and any(isinstance(x, ast.Call) and isinstance(x.func, ast.Name) and x.func.id == fi.name for x in ast.walk(a.elt)):
            shape = ("nested", f"`{fi.name}` freezes a nested list recursively into sets of sets: an ordered [source, target] pair becomes an unordered pair, so a record and its reverse get the same key")
        if shape is None:
            continue
        if shape[0] == "nested" or used_as_key(c):
            n += 1
            res.violation(rule, f, norm(c)[:100], shape[0], shape[1], loc(fi, c))
    if n == 0:
        res.ok(rule, f, "no lossy de-duplication key", "scan", loc(fi, fi.node))


def check_tristate_flag(ctx, res: Result, dotted, rule="G-TRISTATE"):
    """A flag with THREE states - None (undecided), False (decided: no), True (decided: yes) - is tested by truthiness to fill
    in the default: `if not self.flag: self.flag = True` also overwrites a False that an earlier step set on purpose."""
    v = ctx.view(dotted)
    fi = v.fi
    f = fi.short
    res.rules.setdefault(rule, "a None / False / True flag is completed with `is None`, never with `if not flag: flag = True` (a deliberate False would be overwritten)")
    n = 0

    def ref(e):
        if isinstance(e, ast.Name):
            return ("local", e.id)
        if isinstance(e, ast.Attribute) and isinstance(e.value, ast.Name) and e.value.id == "self":
            return ("self", e.attr)
        return None

    def assigned_consts(r):
        vals = set()
        scopes = [m.node for m in fi.cls.methods.values()] if (r[0] == "self" and fi.cls is not None) else [fi.node]
        for sc in scopes:
            for a in ast.walk(sc):
                if isinstance(a, ast.Assign) and isinstance(a.value, ast.Constant) and any(ref(t) == r for t in a.targets):
                    vals.add(a.value.value)
                if isinstance(a, ast.AnnAssign) and isinstance(a.value, ast.Constant) and ref(a.target) == r:
                    vals.add(a.value.value)
        return vals

    for iff in walk_no_nested(fi.node):
        if not isinstance(iff, ast.If):
            continue
        t = iff.test
        if not (isinstance(t, ast.UnaryOp) and isinstance(t.op, ast.Not) and ref(t.operand) is not None):
            continue
        r = ref(t.operand)
        sets_true = [a for b in iff.body for a in ast.walk(b) if isinstance(a, ast.Assign) and isinstance(a.value, ast.Constant) and a.value.value is True and any(ref(tg) == r for tg in a.targets)]
        if not sets_true:
            continue
        vals = assigned_consts(r)
        if None in vals and False in vals and True in vals:
            n += 1
            res.violation(rule, f, norm(iff.test) + ": " + norm(sets_true[0]), r[1], f"`{r[1]}` is a three-state flag (None = undecided, False and True are both assigned elsewhere); `if {norm(iff.test)}` is true for None AND for False, so the default `= True` overwrites a False that was set deliberately - the negative verdict is lost", loc(fi, iff))
    if n == 0:
        res.ok(rule, f, "no truthiness completion of a three-state flag", "scan", loc(fi, fi.node))


def check_trace_of_elementwise(ctx, res: Result, dotted, rule="N-TRACEMUL"):
    """`np.trace(A * B)` with two different matrices: `*` is the ELEMENTWISE product, whose trace is sum_i a_ii b_ii - the
    off-diagonal entries of both factors are ignored.  The trace of the matrix product (sum_ij a_ij b_ji) is `np.trace(A @ B)` or
    `np.sum(A * B.T)`; writing one for the other silently drops every cross term."""
    v = ctx.view(dotted)
    fi = v.fi
    f = fi.short
    res.rules.setdefault(rule, "the trace of a product of two matrices is taken of the matrix product (`@`), not of the elementwise product (`*`)")
    n = 0
    for c in walk_no_nested(fi.node):
        if isinstance(c, ast.Call) and norm(c.func).split(".")[-1] == "trace" and c.args:
            a = c.args[0]
            if isinstance(a, ast.Name):
                a = v.inline(a, depth=1)
            if isinstance(a, ast.BinOp) and isinstance(a.op, ast.Mult) and not any(isinstance(x, ast.Constant) for x in (a.left, a.right)) and norm(a.left) != norm(a.right):
                n += 1
                res.violation(rule, f, norm(c)[:100], "elementwise", f"`{norm(c)[:60]}` takes the trace of an ELEMENTWISE product: only the diagonal entries of the two factors meet, every cross term (a_ij b_ji with i != j) is dropped - with a non-diagonal factor the value is not the trace of the matrix product", loc(fi, c))
    if n == 0:
        res.ok(rule, f, "no trace of an elementwise product", "scan", loc(fi, fi.node))



def check_loop_leak(ctx, res: Result, dotted, rule="G-LOOPLEAK"):
    """The statement right after a loop - at the loop's own indentation - is a per-item step (an accumulation `total += w`, a
    store `table[key] = value`, a mutator call `acc.append(x)`) that reads the loop's variable or a name that is assigned only
    inside the loop body: it ran for every item once and now runs once, for the LAST item only (a statement that lost one
    level of indentation).  Loops with `break` are the search idiom (`for x in xs: if p(x): break` / use x) and are left alone,
    and so is a name that was bound before the loop."""
    v = ctx.view(dotted)
    fi = v.fi
    f = fi.short
    res.rules.setdefault(rule, "the statement that follows a loop is not a per-item accumulation / store that reads the loop's variable (a step of the loop body that lost one level of indentation runs for the last item only)")
    n = 0
    from .canon import _blocks

    MUT = ("append", "add", "update", "extend", "insert", "add_edge", "add_node", "add_edges", "add_nodes", "remove", "discard", "remove_edge", "remove_node", "setdefault", "pop")
    for blk in _blocks(fi.node):
        for i, lp in enumerate(blk[:-1]):
            if not isinstance(lp, ast.For) or lp.orelse:
                continue
            if any(isinstance(x, (ast.Break, ast.Return)) for x in ast.walk(lp)):
                continue
            nxt = blk[i + 1]
            step = isinstance(nxt, ast.AugAssign) or (isinstance(nxt, ast.Assign) and all(isinstance(t, ast.Subscript) for t in nxt.targets)) or (isinstance(nxt, ast.Expr) and isinstance(nxt.value, ast.Call) and isinstance(nxt.value.func, ast.Attribute) and nxt.value.func.attr in MUT)
            if not step:
                continue
            bound = {x.id for x in ast.walk(lp.target) if isinstance(x, ast.Name)}
            for a in ast.walk(lp):
                if isinstance(a, ast.Assign):
                    for t in a.targets:
                        if isinstance(t, ast.Name):
                            bound.add(t.id)
                        elif isinstance(t, (ast.Tuple, ast.List)):
                            bound |= {e.id for e in t.elts if isinstance(e, ast.Name)}
            # names bound before the loop (or parameters) are not the loop's own
            pre = {a_.arg for a_ in fi.params} | {a_.arg for a_ in fi.node.args.kwonlyargs}
            for a in walk_no_nested(fi.node):
                if isinstance(a, ast.Name) and isinstance(a.ctx, ast.Store) and a.lineno < lp.lineno and not any(a is y for y in ast.walk(lp)):
                    pre.add(a.id)
            bound -= pre
            bound -= {"_"}
            if not bound:
                continue
            # reads of the step, outside comprehensions / lambdas that bind the name themselves
            own = set()
            for c in ast.walk(nxt):
                if isinstance(c, (ast.ListComp, ast.SetComp, ast.DictComp, ast.GeneratorExp)):
                    own |= {x.id for g_ in c.generators for x in ast.walk(g_.target) if isinstance(x, ast.Name)}
                if isinstance(c, ast.Lambda):
                    own |= {a_.arg for a_ in c.args.args}
            reads = {x.id for x in ast.walk(nxt) if isinstance(x, ast.Name) and isinstance(x.ctx, ast.Load)} - own
            hit = sorted(reads & bound)
            if not hit:
                continue
            # the accumulated target is not touched inside the loop: nothing else suggests that the loop prepares a final value
            tgt = nxt.target if isinstance(nxt, ast.AugAssign) else (nxt.targets[0].value if isinstance(nxt, ast.Assign) else nxt.value.func.value)
            tname = norm(tgt)
            n += 1
            res.violation(rule, f, norm(nxt)[:100], hit[0], f"`{norm(nxt)[:60]}` follows the loop `for {norm(lp.target)} in {norm(lp.iter)[:40]}` at the loop's own indentation and reads `{hit[0]}`, which only the loop binds: the step runs once, with the values of the LAST item, instead of once per item (`{tname[:30]}` misses every other item)", loc(fi, nxt))
    if n == 0:
        res.ok(rule, f, "no per-item step right after its loop", "scan", loc(fi, fi.node))


def check_accumulator_reset(ctx, res: Result, dotted, rule="G-ACCRESET"):
    """An accumulator (empty list / dict / set / Counter / 0) is (re-)initialised INSIDE the loop that fills it, is not consumed
    inside that loop, and is read after the loop: what it holds then is what the LAST iteration accumulated - everything the
    earlier iterations collected was thrown away (an initialisation at the wrong nesting level)."""
    v = ctx.view(dotted)
    fi = v.fi
    f = fi.short
    res.rules.setdefault(rule, "an accumulator that is read after a loop is not re-initialised inside that loop (every iteration would discard what the earlier ones collected)")
    n = 0

    def empty(e):
        if isinstance(e, (ast.List, ast.Set, ast.Tuple)) and not e.elts:
            return True
        if isinstance(e, ast.Dict) and not e.keys:
            return True
        if isinstance(e, ast.Constant) and e.value in (0, 0.0) and not isinstance(e.value, bool):
            return True
        return isinstance(e, ast.Call) and isinstance(e.func, ast.Name) and e.func.id in ("list", "dict", "set", "Counter", "defaultdict") and not (e.args and e.func.id != "defaultdict")

    for lp in [x for x in walk_no_nested(fi.node) if isinstance(x, (ast.For, ast.While))]:
        for st in lp.body:
            if not (isinstance(st, ast.Assign) and len(st.targets) == 1 and isinstance(st.targets[0], ast.Name) and empty(st.value)):
                continue
            name = st.targets[0].id
            inside = [x for x in ast.walk(lp)]
            ins_ids = {id(x) for x in inside}
            # accumulated inside the loop, after the initialisation
            acc = []
            other_loads = []
            for x in inside:
                if isinstance(x, ast.AugAssign) and isinstance(x.target, ast.Name) and x.target.id == name:
                    acc.append(x)
                elif isinstance(x, ast.AugAssign) and isinstance(x.target, ast.Subscript) and isinstance(x.target.value, ast.Name) and x.target.value.id == name:
                    acc.append(x)
                elif isinstance(x, ast.Assign) and any(isinstance(t, ast.Subscript) and isinstance(t.value, ast.Name) and t.value.id == name for t in x.targets):
                    acc.append(x)
                elif isinstance(x, ast.Call) and isinstance(x.func, ast.Attribute) and isinstance(x.func.value, ast.Name) and x.func.value.id == name and x.func.attr in ("append", "add", "update", "extend", "setdefault"):
                    acc.append(x)
            acc_ids = set()
            for a in acc:
                tg = a.target if isinstance(a, ast.AugAssign) else (a.func if isinstance(a, ast.Call) else None)
                for y in (ast.walk(tg) if tg is not None else [t_ for t in a.targets for t_ in ast.walk(t)]):
                    acc_ids.add(id(y))
            for x in inside:
                if isinstance(x, ast.Name) and x.id == name and isinstance(x.ctx, ast.Load) and id(x) not in acc_ids:
                    other_loads.append(x)
            if not acc or other_loads:
                continue
            # other stores of the name inside the loop: something else than an accumulator
            if sum(1 for x in inside if isinstance(x, ast.Name) and x.id == name and isinstance(x.ctx, ast.Store)) != 1:
                continue
            after = [x for x in walk_no_nested(fi.node) if isinstance(x, ast.Name) and x.id == name and isinstance(x.ctx, ast.Load) and id(x) not in ins_ids and x.lineno > lp.end_lineno]
            # an enclosing loop that consumes it per iteration of ITS body is fine: only reads after the OUTERMOST loop that contains
            # no other initialisation count; keep it simple - the read must not be inside a loop that also contains `lp`
            after = [x for x in after if not any(any(l2 is y for y in ast.walk(o)) for o in v.enclosing_all(x, (ast.For, ast.While)) for l2 in [lp])]
            if not after:
                continue
            rebound = any(isinstance(x, ast.Name) and x.id == name and isinstance(x.ctx, ast.Store) and id(x) not in ins_ids and lp.end_lineno < x.lineno <= after[0].lineno for x in walk_no_nested(fi.node))
            if rebound:
                continue
            n += 1
            res.violation(rule, f, norm(st), name, f"`{norm(st)}` sits inside the loop at line {lp.lineno} that fills `{name}` (`{norm(acc[0])[:50]}`), nothing in the loop consumes it, and it is read after the loop (line {after[0].lineno}): every iteration starts from an empty `{name}`, so only the last iteration's items are left", loc(fi, st))
    if n == 0:
        res.ok(rule, f, "no accumulator re-initialised inside the loop that fills it", "scan", loc(fi, fi.node))


def check_swapped_arguments(ctx, res: Result, dotted, rule="G-ARGSWAP"):
    """A positional call of a repository function hands over two plain names crosswise: argument i is spelled like parameter j and
    argument j like parameter i (`self._absorb_C(fixed_w, fixed_u)` for `def _absorb_C(self, fixed_u, fixed_w)`).  The caller's
    names say which value is which; the callee will take each for the other."""
    v = ctx.view(dotted)
    fi = v.fi
    f = fi.short
    res.rules.setdefault(rule, "two positional arguments that carry the names of two of the callee's parameters are not handed over crosswise (each in the other's position)")
    n = 0
    for c in walk_no_nested(fi.node):
        if not isinstance(c, ast.Call) or len(c.args) < 2 or any(isinstance(a, ast.Starred) for a in c.args):
            continue
        for callee in ctx.callees(fi, c):
            ps = [a.arg for a in callee.params]
            if callee.cls is not None and ps and ps[0] in ("self", "cls") and isinstance(c.func, ast.Attribute):
                ps = ps[1:]
            names = [a.id if isinstance(a, ast.Name) else None for a in c.args]
            hit = None
            for i, ai in enumerate(names):
                for j in range(i + 1, len(names)):
                    aj = names[j]
                    if ai and aj and ai != aj and j < len(ps) and ps[i] == aj and ps[j] == ai:
                        hit = (i, j)
            if hit:
                i, j = hit
                n += 1
                res.violation(rule, f, norm(c)[:100], f"{ps[i]}<->{ps[j]}", f"`{norm(c)[:60]}` hands `{names[i]}` to the parameter `{ps[i]}` and `{names[j]}` to the parameter `{ps[j]}` of {callee.short}: the two values are taken for each other", loc(fi, c))
                break
    if n == 0:
        res.ok(rule, f, "no crosswise positional arguments", "scan", loc(fi, fi.node))


def check_sorted_pair(ctx, res: Result, dotted, rule="K-SORTPAIR"):
    """`sorted(e)` / `tuple(sorted(e))` where `e` is a directed hyperedge - a (source nodes, target nodes) pair - sorts the two SIDES
    against each other: whenever the target tuple sorts before the source tuple the roles are swapped.  Decided from the kind of the
    sorted value, in the function itself and in the repository helpers it hands a list of such pairs to (a helper written for
    undirected hyperedges that canonicalises each item)."""
    from .kinds import Lst, Seq, Tup, elem_of, strip_none

    v = ctx.view(dotted)
    fi = v.fi
    f = fi.short
    res.rules.setdefault(rule, "a directed hyperedge (source nodes, target nodes) is never passed through sorted(): sorting the pair compares its two sides and can swap them")
    n = 0

    def is_pair(k):
        k = strip_none(k)
        return isinstance(k, Tup) and len(k.items) == 2 and all(isinstance(strip_none(i), Seq) for i in k.items)

    def sorts_of(node):
        return [c for c in ast.walk(node) if isinstance(c, ast.Call) and isinstance(c.func, ast.Name) and c.func.id == "sorted" and len(c.args) == 1 and not c.keywords]

    for c in sorts_of(fi.node):
        try:
            k = ctx.interp.kind_at(fi, c.args[0])
        except Exception:
            continue
        if is_pair(k):
            n += 1
            res.violation(rule, f, norm(c)[:80], "direct", f"`{norm(c)[:50]}` sorts a (source, target) pair ({k!r}): the two node tuples are compared with each other, and a hyperedge whose target sorts before its source comes out with the roles swapped", loc(fi, c))
    for cf in ctx.interp.callfacts:
        if cf.caller.qualname != fi.qualname or cf.callee.module.relpath != fi.module.relpath:
            continue
        for pname, k in cf.bound.items():
            k = strip_none(k)
            if not (isinstance(k, Lst) and is_pair(elem_of(k))):
                continue
            # loops of the callee over that parameter (directly or through enumerate), and sorted(<loop variable>) inside
            for lp in [x for x in ast.walk(cf.callee.node) if isinstance(x, (ast.For, ast.comprehension))]:
                it = lp.iter
                tgt = lp.target
                if isinstance(it, ast.Call) and isinstance(it.func, ast.Name) and it.func.id == "enumerate" and it.args and isinstance(tgt, ast.Tuple) and len(tgt.elts) == 2:
                    it, tgt = it.args[0], tgt.elts[1]
                if not (isinstance(it, ast.Name) and it.id == pname and isinstance(tgt, ast.Name)):
                    continue
                scope = lp if isinstance(lp, ast.For) else cf.callee.node
                cview = ctx.view(cf.callee)
                for c in sorts_of(scope):
                    if isinstance(c.args[0], ast.Name) and c.args[0].id == tgt.id:
                        # `if canonical: e = tuple(sorted(e))` with `canonical=False` at this call: a test over another parameter of
                        # the helper decides whether the sort runs at all
                        pnames = {a_.arg for a_ in cf.callee.params} - {pname}
                        guards = [i_ for i_ in cview.enclosing_all(c, (ast.If, ast.IfExp)) if any(isinstance(x, ast.Name) and x.id in pnames for x in ast.walk(i_.test))]
                        if guards:
                            res.unknown(rule, f, norm(cf.node)[:80], f"{cf.callee.short}:{pname}", f"{cf.callee.short} sorts the items of `{pname}` only under `{norm(guards[0].test)[:40]}`, a test of another argument of this call", loc(fi, cf.node))
                            break
                        n += 1
                        res.violation(rule, f, norm(cf.node)[:80], f"{cf.callee.short}:{pname}", f"{cf.callee.short} canonicalises every item of `{pname}` with `{norm(c)[:40]}`, and this call hands it (source, target) pairs ({k!r}): the pair itself is sorted, so a hyperedge whose target tuple sorts before its source tuple is recorded with the roles swapped", loc(fi, cf.node))
                        break
    if n == 0:
        res.ok(rule, f, "no directed pair passed through sorted()", "scan", loc(fi, fi.node))


def check_role_membership(ctx, res: Result, dotted, rule="K-ROLEMEM"):
    """`edge[1] in handled` with `handled = {edge[0] for edge in source_edges}`: a node tuple of one ROLE of a directed hyperedge (its
    target side) is looked up in a collection of node tuples of the OTHER role (source sides).  The two sides of a directed
    hyperedge are different things even when they hold the same nodes; the test succeeds by accident of a reciprocal pair."""
    from .kinds import Atom, Dct, Lst, Seq, St, strip_none

    v = ctx.view(dotted)
    fi = v.fi
    f = fi.short
    res.rules.setdefault(rule, "a source-side node tuple is never looked up in a collection of target-side node tuples (or the reverse): the sides of a directed hyperedge are not interchangeable")
    n = 0

    def role_of_seq(k):
        k = strip_none(k)
        if isinstance(k, Seq) and isinstance(strip_none(k.elem), Atom):
            return strip_none(k.elem).role
        return None

    for c in walk_no_nested(fi.node):
        if not (isinstance(c, ast.Compare) and len(c.ops) == 1 and isinstance(c.ops[0], (ast.In, ast.NotIn))):
            continue
        try:
            kl = ctx.interp.kind_at(fi, c.left)
            kr = strip_none(ctx.interp.kind_at(fi, c.comparators[0]))
        except Exception:
            continue
        rl = role_of_seq(kl)
        rr = None
        if isinstance(kr, (St, Lst)):
            rr = role_of_seq(kr.elem)
        elif isinstance(kr, Dct):
            rr = role_of_seq(kr.key)
        if rl and rr and rl != rr:
            n += 1
            res.violation(rule, f, norm(c)[:90], f"{rl} in {rr}", f"`{norm(c.left)[:30]}` is the {rl} side of a directed hyperedge, `{norm(c.comparators[0])[:30]}` holds {rr} sides: the lookup compares the two roles with each other - it hits exactly when another hyperedge has that node set on its other side (a reciprocal pair), which says nothing about THIS hyperedge", loc(fi, c))
    if n == 0:
        res.ok(rule, f, "no cross-role membership test", "scan", loc(fi, fi.node))


def check_or_merged_flag(ctx, res: Result, dotted, rule="G-ORFLAG"):
    """`keep_isolated_nodes = keep_isolated_nodes or keep_nodes` where the parameter on the left defaults to True: the `or` can only
    ever turn the flag ON, so an alias / second option passed as False is silently ignored while the first is at its default."""
    v = ctx.view(dotted)
    fi = v.fi
    f = fi.short
    res.rules.setdefault(rule, "a flag that defaults to True is not merged with another option through `flag = flag or other` (the other option could never switch it off)")
    n = 0
    args = fi.node.args
    pos = args.posonlyargs + args.args
    defaults = dict(zip([a.arg for a in pos][len(pos) - len(args.defaults):], args.defaults))
    defaults.update({a.arg: d for a, d in zip(args.kwonlyargs, args.kw_defaults) if d is not None})
    true_default = {k for k, d in defaults.items() if isinstance(d, ast.Constant) and d.value is True}
    for a in walk_no_nested(fi.node):
        if isinstance(a, ast.Assign) and len(a.targets) == 1 and isinstance(a.targets[0], ast.Name) and isinstance(a.value, ast.BoolOp) and isinstance(a.value.op, ast.Or):
            first = a.value.values[0]
            if isinstance(first, ast.Name) and first.id == a.targets[0].id and first.id in true_default and any(isinstance(x, ast.Name) and x.id in defaults and x.id != first.id for o_ in a.value.values[1:] for x in ast.walk(o_)):
                # not re-assigned before (the default still stands on this path)
                n += 1
                res.violation(rule, f, norm(a)[:90], first.id, f"`{first.id}` defaults to True, so `{norm(a.value)[:50]}` is True whatever the other option says: passing the other option as False (the legacy spelling of `{first.id}=False`) has no effect", loc(fi, a))
    if n == 0:
        res.ok(rule, f, "no default-True flag merged with `or`", "scan", loc(fi, fi.node))


def check_falsy_fallback(ctx, res: Result, dotted, rule="G-ORGET"):
    """`metadata.get(name) or record.get(name)`: the second place is consulted whenever the first yields a FALSY value - also when the
    first holds a legitimate 0 / 0.0 / "" (a zero weight, time 0, a layer called "" or 0).  The value is then taken from the other
    place or comes back as None."""
    v = ctx.view(dotted)
    fi = v.fi
    f = fi.short
    res.rules.setdefault(rule, "a value looked up in two places falls back on `is None` / membership, never on truthiness (`a.get(k) or b.get(k)` loses a stored 0 / \"\")")
    n = 0
    for b in walk_no_nested(fi.node):
        if isinstance(b, ast.BoolOp) and isinstance(b.op, ast.Or) and len(b.values) == 2:
            l, r = b.values
            def is_get(e):
                return isinstance(e, ast.Call) and isinstance(e.func, ast.Attribute) and e.func.attr == "get" and len(e.args) == 1 and not e.keywords
            if is_get(l) and is_get(r) and norm(l.args[0]) == norm(r.args[0]) and norm(l.func.value) != norm(r.func.value):
                n += 1
                res.violation(rule, f, norm(b)[:90], norm(l.args[0])[:20], f"`{norm(b)[:60]}` consults `{norm(r.func.value)[:20]}` whenever `{norm(l)[:30]}` is falsy: a stored 0 / 0.0 / \"\" (a zero weight, time 0, layer 0) is treated as missing and replaced by the other place's value or None", loc(fi, b))
    # `self._weights.get(edge_id) or 1`: a stored weight 0 / 0.0 is replaced by the default 1 (use `.get(edge_id, 1)`)
    for b in walk_no_nested(fi.node):
        if isinstance(b, ast.BoolOp) and isinstance(b.op, ast.Or) and len(b.values) == 2:
            l, r = b.values
            if isinstance(l, ast.Call) and isinstance(l.func, ast.Attribute) and l.func.attr == "get" and len(l.args) == 1 and isinstance(r, ast.Constant) and isinstance(r.value, (int, float)) and not isinstance(r.value, bool) and r.value != 0 and "weight" in norm(l.func.value).lower():
                n += 1
                res.violation(rule, f, norm(b)[:90], norm(l.func.value)[:30], f"`{norm(b)[:60]}` replaces a stored weight 0 / 0.0 by {r.value}: a hyperedge of weight 0 is then indistinguishable from one of weight {r.value} (`.get(key, {r.value})` keeps the 0)", loc(fi, b))
    if n == 0:
        res.ok(rule, f, "no two-place lookup by truthiness", "scan", loc(fi, fi.node))


def check_hashable_dispatch(ctx, res: Result, dotted, rule="G-HASHABLE"):
    """`isinstance(values, Hashable)` used to tell "one value" from "a collection of values": tuples, frozensets and ranges are
    hashable collections, so a collection given in one of those forms is taken for a single value."""
    v = ctx.view(dotted)
    fi = v.fi
    f = fi.short
    res.rules.setdefault(rule, "a single value is not told apart from a collection of values by `isinstance(x, Hashable)` (tuples / frozensets / ranges are hashable collections)")
    n = 0
    for c in walk_no_nested(fi.node):
        if isinstance(c, ast.Call) and isinstance(c.func, ast.Name) and c.func.id == "isinstance" and len(c.args) == 2 and any((isinstance(x, ast.Name) and x.id == "Hashable") or (isinstance(x, ast.Attribute) and x.attr == "Hashable") for x in ast.walk(c.args[1])):
            n += 1
            res.violation(rule, f, norm(c)[:90], norm(c.args[0])[:30], f"`{norm(c)[:60]}` decides that `{norm(c.args[0])[:20]}` is ONE value: a tuple / frozenset / range of allowed values is hashable too and is then compared as a whole, so nothing matches it", loc(fi, c))
    if n == 0:
        res.ok(rule, f, "no Hashable dispatch", "scan", loc(fi, fi.node))


def check_len_of_pair(ctx, res: Result, dotted, rule="K-PAIRLEN"):
    """`sorted(edges, key=len)` / `len(e)` where `e` is a directed hyperedge (source nodes, target nodes): the length of the PAIR is
    always 2 - it is not the size of the hyperedge."""
    from .kinds import Lst, Seq, St, Tup, elem_of, strip_none

    v = ctx.view(dotted)
    fi = v.fi
    f = fi.short
    res.rules.setdefault(rule, "the size of a directed hyperedge is never taken as len() of its (source, target) pair (which is always 2)")
    n = 0

    def is_pair(k):
        k = strip_none(k)
        return isinstance(k, Tup) and len(k.items) == 2 and all(isinstance(strip_none(i), Seq) for i in k.items)

    for c in walk_no_nested(fi.node):
        if isinstance(c, ast.Call) and isinstance(c.func, ast.Name) and c.func.id in ("sorted", "min", "max") and c.args and any(k.arg == "key" and isinstance(k.value, ast.Name) and k.value.id == "len" for k in c.keywords):
            try:
                kk = strip_none(ctx.interp.kind_at(fi, c.args[0]))
            except Exception:
                continue
            if isinstance(kk, (Lst, St)) and is_pair(elem_of(kk)):
                n += 1
                res.violation(rule, f, norm(c)[:90], "key=len", f"`{norm(c)[:60]}` orders (source, target) pairs by `len`, which is 2 for every directed hyperedge: the order is the insertion order, not the order of sizes", loc(fi, c))
        if isinstance(c, ast.Call) and isinstance(c.func, ast.Name) and c.func.id == "len" and len(c.args) == 1:
            try:
                kk = ctx.interp.kind_at(fi, c.args[0])
            except Exception:
                continue
            if is_pair(kk):
                n += 1
                res.violation(rule, f, norm(c)[:90], "len(pair)", f"`{norm(c)}` is the length of a (source, target) pair - always 2 - not the number of nodes of the hyperedge", loc(fi, c))
    if n == 0:
        res.ok(rule, f, "no len() of a directed pair", "scan", loc(fi, fi.node))


def check_empty_as_missing(ctx, res: Result, dotted, rule="G-EMPTYNONE"):
    """`if d is None or np.size(d) == 0: d = <default>`: an EMPTY collection that the caller passed on purpose ("no hyperedge size is
    taken into account") is replaced by the default like an omitted argument."""
    v = ctx.view(dotted)
    fi = v.fi
    f = fi.short
    res.rules.setdefault(rule, "an empty collection passed for a parameter is a value, not `not given`: it is not replaced by the default together with None")
    n = 0
    params = {a.arg for a in fi.params} | {a.arg for a in fi.node.args.kwonlyargs}
    for i_ in walk_no_nested(fi.node):
        if not (isinstance(i_, ast.If) and isinstance(i_.test, ast.BoolOp) and isinstance(i_.test.op, ast.Or)):
            continue
        nones = [c.left.id for c in i_.test.values if isinstance(c, ast.Compare) and len(c.ops) == 1 and isinstance(c.ops[0], ast.Is) and isinstance(c.left, ast.Name) and isinstance(c.comparators[0], ast.Constant) and c.comparators[0].value is None]
        for p_ in nones:
            if p_ not in params:
                continue
            empt = [x for o_ in i_.test.values for x in ast.walk(o_) if isinstance(x, ast.Compare) and len(x.ops) == 1 and isinstance(x.ops[0], ast.Eq) and isinstance(x.comparators[0], ast.Constant) and x.comparators[0].value == 0 and isinstance(x.left, ast.Call) and norm(x.left.func).split(".")[-1] in ("len", "size") and x.left.args and norm(x.left.args[0]) == p_]
            rebinds = [a for a in i_.body if isinstance(a, ast.Assign) and any(isinstance(t, ast.Name) and t.id == p_ for t in a.targets)]
            if empt and rebinds:
                n += 1
                res.violation(rule, f, norm(i_.test)[:90], p_, f"`{norm(empt[0])}` sends an empty `{p_}` down the same path as `{p_} is None` (`{norm(rebinds[0])[:40]}`): an empty collection given on purpose - no size / no item selected, every sum 0 - is silently replaced by the default", loc(fi, i_))
    if n == 0:
        res.ok(rule, f, "no empty collection treated as missing", "scan", loc(fi, fi.node))


def check_setdefault_shared(ctx, res: Result, dotted, rule="E-SETDEFAULT"):
    """`table.setdefault(key, shared).update(...)` inside a loop over keys, where `shared` is one object created outside that loop: every key
    that is first seen in this pass gets THE SAME object as its entry, and the in-place update through one key shows under the others."""
    v = ctx.view(dotted)
    fi = v.fi
    f = fi.short
    res.rules.setdefault(rule, "the default handed to setdefault inside a loop over keys is a fresh object per key when the entry is then mutated in place (never one object shared by all the keys of the pass)")
    n = 0
    for c in walk_no_nested(fi.node):
        if not (isinstance(c, ast.Call) and isinstance(c.func, ast.Attribute) and c.func.attr in ("update", "add", "append", "extend", "__ior__")):
            continue
        inner = c.func.value
        if not (isinstance(inner, ast.Call) and isinstance(inner.func, ast.Attribute) and inner.func.attr == "setdefault" and len(inner.args) == 2 and isinstance(inner.args[1], ast.Name)):
            continue
        lp = v.enclosing(c, (ast.For, ast.While))
        if lp is None:
            continue
        shared = inner.args[1].id
        defs_in_loop = [a for a in ast.walk(lp) if isinstance(a, ast.Assign) and any(isinstance(t, ast.Name) and t.id == shared for t in a.targets)]
        key_uses_loopvar = isinstance(lp, ast.For) and {x.id for x in ast.walk(lp.target) if isinstance(x, ast.Name)} & {x.id for x in ast.walk(inner.args[0]) if isinstance(x, ast.Name)}
        if not defs_in_loop and key_uses_loopvar:
            n += 1
            res.violation(rule, f, norm(c)[:90], shared, f"`{norm(inner)[:50]}` hands the one object `{shared}` (created outside this loop) to every key that has no entry yet, and `.{c.func.attr}(...)` then changes it in place: the keys first seen in the same pass share one entry, so what is added for one of them later shows under the others", loc(fi, c))
    if n == 0:
        res.ok(rule, f, "no shared setdefault default mutated in place", "scan", loc(fi, fi.node))


def check_consecutive_pairs(ctx, res: Result, dotted, rule="G-CONSECPAIR"):
    """`for a, b in zip(items, items[1:])` enumerates CONSECUTIVE items only.  Where every unordered pair of the items has to be
    examined (the hyperedges incident to a node, for the line graph) the pairs (i, j) with j > i + 1 are never compared."""
    v = ctx.view(dotted)
    fi = v.fi
    f = fi.short
    res.rules.setdefault(rule, "all unordered pairs of a list are enumerated with combinations / a double loop, not with zip(items, items[1:]) (consecutive items only)")
    n = 0
    for c in walk_no_nested(fi.node):
        if isinstance(c, ast.Call) and isinstance(c.func, ast.Name) and c.func.id == "zip" and len(c.args) == 2:
            a, b = c.args

            def shifted(x, y):
                if isinstance(y, ast.Subscript) and isinstance(y.slice, ast.Slice) and isinstance(y.slice.lower, ast.Constant) and y.slice.lower.value == 1 and y.slice.upper is None and norm(y.value) == norm(x):
                    return True
                # zip(zip(ids, incident), zip(ids[1:], incident[1:]))
                return isinstance(x, ast.Call) and isinstance(y, ast.Call) and norm(x.func) == "zip" and norm(y.func) == "zip" and len(x.args) == len(y.args) and len(x.args) > 0 and all(shifted(p_, q_) for p_, q_ in zip(x.args, y.args))

            if shifted(a, b):
                # reported where the pairs feed a similarity / adjacency decision between the two items
                lp = next((l for l in [v.parent.get(id(c))] if isinstance(l, (ast.For, ast.comprehension))), None)
                if lp is not None:
                    n += 1
                    res.violation(rule, f, norm(c)[:80], norm(a)[:30], f"`{norm(c)[:50]}` pairs each item with its successor only: two items that are not next to each other in `{norm(a)[:20]}` are never compared, so a link between them (two hyperedges sharing this node) is missed", loc(fi, c))
    if n == 0:
        res.ok(rule, f, "no consecutive-pair enumeration", "scan", loc(fi, fi.node))

def check_reused_record(ctx, res: Result, dotted, rule="G-REUSEDREC"):
    """One mutable record (a dict created once) is filled item after item with `.update(...)` / element stores and handed to a
    consumer each time, but it is never emptied in between: a field that the current item does not set still holds the value of
    an EARLIER item.  (A record that is rebuilt per item - `record = {...}` inside the loop - or cleared first is fine.)"""
    v = ctx.view(dotted)
    fi = v.fi
    f = fi.short
    res.rules.setdefault(rule, "a record object reused across items is emptied (or rebuilt) before it is filled for the next item - an accumulate-only `.update` leaks fields of earlier items")
    n = 0
    # records: locals of fi bound once to a dict display / dict() that has at least one dict-valued field or is itself updated
    recs = {}
    for a in walk_no_nested(fi.node):
        if isinstance(a, ast.Assign) and len(a.targets) == 1 and isinstance(a.targets[0], ast.Name) and (isinstance(a.value, ast.Dict) or (isinstance(a.value, ast.Call) and isinstance(a.value.func, ast.Name) and a.value.func.id == "dict")):
            recs.setdefault(a.targets[0].id, []).append(a)
    recs = {k: d[0] for k, d in recs.items() if len(d) == 1 and v.enclosing(d[0], (ast.For, ast.While)) is None}
    if not recs:
        res.ok(rule, f, "no reused record", "scan", loc(fi, fi.node))
        return
    # regions executed once per item: bodies of nested functions that are called inside a loop of fi, and loop bodies of fi
    regions = []
    for g in [x for x in ast.walk(fi.node) if isinstance(x, (ast.FunctionDef, ast.Lambda)) and x is not fi.node]:
        if isinstance(g, ast.FunctionDef):
            called_in_loop = any(isinstance(c, ast.Call) and isinstance(c.func, ast.Name) and c.func.id == g.name and v.enclosing(c, (ast.For, ast.While)) is not None for c in walk_no_nested(fi.node))
            if called_in_loop:
                regions.append((g, g.body))
    for lp in [x for x in walk_no_nested(fi.node) if isinstance(x, (ast.For, ast.While))]:
        regions.append((lp, lp.body))
    for name, d in recs.items():
        for holder, body in regions:
            nodes = [y for st in body for y in ast.walk(st)]

            def on_rec(e):
                """e is `name` or `name[<const>]`"""
                if isinstance(e, ast.Name):
                    return e.id == name
                return isinstance(e, ast.Subscript) and isinstance(e.value, ast.Name) and e.value.id == name

            grows = [c for c in nodes if isinstance(c, ast.Call) and isinstance(c.func, ast.Attribute) and c.func.attr == "update" and on_rec(c.func.value)]
            resets = [c for c in nodes if (isinstance(c, ast.Call) and isinstance(c.func, ast.Attribute) and c.func.attr == "clear" and on_rec(c.func.value)) or (isinstance(c, ast.Assign) and any(on_rec(t) and isinstance(c.value, (ast.Dict, ast.Call, ast.DictComp)) for t in c.targets) and any(isinstance(t, ast.Subscript) and isinstance(c.value, (ast.Dict, ast.DictComp)) or isinstance(t, ast.Name) for t in c.targets))]
            handed = [c for c in nodes if isinstance(c, ast.Call) and any(isinstance(a_, ast.Name) and a_.id == name for a_ in list(c.args) + [k.value for k in c.keywords])]
            if grows and handed and not resets:
                n += 1
                res.violation(rule, f, norm(grows[0])[:100], name, f"`{name}` is created once and `{norm(grows[0])[:50]}` only ADDS to it for every item before it is handed to `{norm(handed[0].func)[:30]}`: a key that an earlier item set and the current one does not is still there - the record written for this item carries fields of previous items", loc(fi, grows[0]))
                break
    if n == 0:
        res.ok(rule, f, "no record reused without being emptied", "scan", loc(fi, fi.node))

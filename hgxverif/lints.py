"""Small positive-pattern rules shared by several properties: each reports a construct that is wrong whenever it occurs
in the anchored code (never the absence of something)."""
from __future__ import annotations

import ast

from .model import loc, norm, walk_no_nested
from .report import Result


def check_groupby_sorted(ctx, res: Result, dotted: str, rule="G-GROUPBY"):
    """itertools.groupby only merges CONSECUTIVE items: grouping records by a key needs an input sorted by that key.
    Reported: groupby over an iterable that is not `sorted(..., key=<same key>)` (or sorted without key when the
    grouping key is the first component)."""
    v = ctx.view(dotted)
    f = v.fi.short
    found = 0
    for n in ast.walk(v.fi.node):
        if isinstance(n, ast.Call) and norm(n.func) in ("groupby", "itertools.groupby") and n.args:
            found += 1
            it = v.inline(n.args[0])
            key = n.args[1] if len(n.args) > 1 else next((k.value for k in n.keywords if k.arg == "key"), None)
            is_sorted = isinstance(it, ast.Call) and norm(it.func) == "sorted"
            if is_sorted:
                skey = next((k.value for k in it.keywords if k.arg == "key"), None)
                same = (skey is None and key is None) or (skey is not None and key is not None and norm(skey) == norm(key)) or (skey is None and key is not None and isinstance(key, ast.Lambda) and isinstance(key.body, ast.Subscript) and isinstance(key.body.slice, ast.Constant) and key.body.slice.value == 0)
                res.add(rule, f, norm(n)[:140], "sorted-input", "ok" if same else "unknown", "" if same else "the input is sorted by another key than the grouping key", loc(v.fi, n))
            else:
                res.violation(rule, f, norm(n)[:140], "sorted-input", f"groupby runs over `{norm(it)[:80]}`, which is not sorted by the grouping key: records with the same key that are not adjacent form several groups (a later group overwrites / duplicates an earlier one)", loc(v.fi, n))
    if not found:
        res.ok(rule, f, "no itertools.groupby", "scan", loc(v.fi, v.fi.node))


def check_fancy_augassign(ctx, res: Result, dotted: str, rule="N-FANCYAUG"):
    """`A[rows, cols] += v` with ARRAY-valued indices does not accumulate repeated index pairs (numpy buffers the
    update): a vectorised count / weight accumulation must use np.add.at.  Reported: an augmented assignment whose
    subscript contains an index that is itself an array slice (`X[:, i]`) or an array built by np.array / asarray."""
    v = ctx.view(dotted)
    f = v.fi.short
    found = 0
    arrays = {n.targets[0].id for n in walk_no_nested(v.fi.node) if isinstance(n, ast.Assign) and isinstance(n.targets[0], ast.Name) and isinstance(n.value, ast.Call) and norm(n.value.func) in ("np.array", "np.asarray", "numpy.array", "numpy.asarray", "np.fromiter", "np.concatenate", "np.nonzero", "np.where", "np.arange")}
    for n in walk_no_nested(v.fi.node):
        if isinstance(n, ast.AugAssign) and isinstance(n.target, ast.Subscript):
            idx = n.target.slice.elts if isinstance(n.target.slice, ast.Tuple) else [n.target.slice]
            arrayish = [x for x in idx if (isinstance(x, ast.Subscript) and (isinstance(x.slice, ast.Slice) or (isinstance(x.slice, ast.Tuple) and any(isinstance(e, ast.Slice) for e in x.slice.elts)))) or (isinstance(x, ast.Name) and x.id in arrays)]
            if arrayish:
                found += 1
                res.violation(rule, f, norm(n), "repeated-indices", f"`{norm(n.target)}` is indexed with arrays: `{type(n.op).__name__.lower()}=` through fancy indexing writes each repeated index pair once instead of accumulating (use np.add.at)", loc(v.fi, n))
    if not found:
        res.ok(rule, f, "no augmented assignment through array indices", "scan", loc(v.fi, v.fi.node))

"""Writer / reader schema agreement (DESIGN 2.G): S-PICKLE, S-JSONKEYS, S-RESERVED, S-DISPATCH, S-LOADARGS, S-HGR,
S-HASHFIELDS, S-HASHSORT."""
from __future__ import annotations

import ast
from typing import Dict, List, Optional, Set, Tuple

from . import tables as T
from .model import AnalysisError, is_self_attr, loc, norm, walk_no_nested
from .report import Result

RESERVED = {"Hypergraph": {"weight"}, "DirectedHypergraph": {"weight"}, "TemporalHypergraph": {"weight", "time"}, "MultiplexHypergraph": {"weight", "layer"}}
# attributes the queries of C06 read (DESIGN 3/C06): these must survive the binary snapshot
PICKLE_ARMED = {
    "Hypergraph": ["_weighted", "_adj", "_edge_list", "_weights", "_hypergraph_metadata", "_node_metadata", "_edge_metadata", "_reverse_edge_list", "_next_edge_id"],
    "DirectedHypergraph": ["_weighted", "_adj_source", "_adj_target", "_edge_list", "_weights", "_hypergraph_metadata", "_node_metadata", "_edge_metadata", "_reverse_edge_list", "_next_edge_id"],
    "TemporalHypergraph": ["_weighted", "_adj", "_edge_list", "_weights", "_hypergraph_metadata", "_node_metadata", "_edge_metadata", "_reverse_edge_list", "_next_edge_id"],
    "MultiplexHypergraph": ["_weighted", "_adj", "_edge_list", "_weights", "_hypergraph_metadata", "_node_metadata", "_edge_metadata", "_reverse_edge_list", "_next_edge_id", "_existing_layers"],
}


# ------------------------------------------------------------------------------- type dispatch
def type_branches(fn: ast.AST, var_names=("hypergraph_type", "h_type")) -> Dict[str, List[ast.stmt]]:
    """type name -> statements executed when the dispatch variable equals it (If/elif chains on `var == 'X'` / `var in [...]`)."""
    out: Dict[str, List[ast.stmt]] = {}

    def names_of(test) -> Optional[Set[str]]:
        if isinstance(test, ast.Compare) and len(test.ops) == 1 and isinstance(test.left, ast.Name) and test.left.id in var_names:
            r = test.comparators[0]
            if isinstance(test.ops[0], ast.Eq) and isinstance(r, ast.Constant) and isinstance(r.value, str):
                return {r.value}
            if isinstance(test.ops[0], ast.In) and isinstance(r, (ast.List, ast.Tuple, ast.Set)) and all(isinstance(e, ast.Constant) for e in r.elts):
                return {e.value for e in r.elts}
        return None

    def visit(stmts, active: Optional[Set[str]]):
        for st in stmts:
            if isinstance(st, ast.If):
                ns = names_of(st.test)
                if ns is not None:
                    sub = ns if active is None else (ns & active)
                    for n in sub:
                        out.setdefault(n, [])
                    visit(st.body, sub)
                    visit(st.orelse, active)
                    continue
            if active is not None:
                for n in active:
                    out.setdefault(n, []).append(st)
            for fld in ("body", "orelse", "finalbody"):
                subl = getattr(st, fld, None)
                if isinstance(subl, list) and not isinstance(st, (ast.FunctionDef, ast.ClassDef)):
                    visit(subl, active)
            if isinstance(st, ast.Try):
                for h in st.handlers:
                    visit(h.body, active)

    visit(fn.body, None)
    return out


def _const_subscript_stores(stmts, var: str) -> Set[str]:
    out = set()
    for st in stmts:
        for n in ast.walk(st):
            if isinstance(n, ast.Subscript) and isinstance(n.ctx, ast.Store) and isinstance(n.value, ast.Name) and n.value.id == var and isinstance(n.slice, ast.Constant) and isinstance(n.slice.value, str):
                out.add(n.slice.value)
    return out


def _const_gets(stmts) -> Set[str]:
    """keys read as <x>["metadata"].get("k") or <x>["metadata"]["k"]"""
    out = set()
    for st in stmts:
        for n in ast.walk(st):
            if isinstance(n, ast.Call) and isinstance(n.func, ast.Attribute) and n.func.attr == "get" and n.args and isinstance(n.args[0], ast.Constant) and isinstance(n.args[0].value, str):
                base = n.func.value
                if isinstance(base, ast.Subscript) and isinstance(base.slice, ast.Constant) and base.slice.value == "metadata":
                    out.add(n.args[0].value)
            if isinstance(n, ast.Subscript) and isinstance(n.ctx, ast.Load) and isinstance(n.slice, ast.Constant) and isinstance(n.value, ast.Subscript) and isinstance(n.value.slice, ast.Constant) and n.value.slice.value == "metadata" and isinstance(n.slice.value, str):
                out.add(n.slice.value)
    return out


def check_json_schema(ctx, res: Result):
    save = ctx.require("save.save_hypergraph")
    load = ctx.require("load.load_hypergraph")
    sb = type_branches(save.node)
    lb = type_branches(load.node)
    containers = set(T.CONTAINERS)
    # ---- S-DISPATCH
    res.check(set(sb) == containers, "S-DISPATCH", save.short, "type dispatch", "save", f"save_hypergraph handles {sorted(sb)}; the exported container classes are {sorted(containers)}", loc(save, save.node))
    res.check(set(lb) >= containers, "S-DISPATCH", load.short, "type dispatch", "load-json", f"load_hypergraph (json) handles {sorted(lb)}; the exported container classes are {sorted(containers)}", loc(load, load.node))
    lp = ctx.require("load._load_pickle")
    pb = type_branches(lp.node)
    res.check(set(pb) == containers, "S-DISPATCH", lp.short, "type dispatch", "load-pickle", f"_load_pickle handles {sorted(pb)}; the exported container classes are {sorted(containers)}", loc(lp, lp.node))
    for t, stmts in pb.items():
        ctor = [n for st in stmts for n in ast.walk(st) if isinstance(n, ast.Call) and isinstance(n.func, ast.Name) and n.func.id in containers]
        res.check(any(c.func.id == t for c in ctor) and all(c.func.id == t for c in ctor), "S-DISPATCH", lp.short, f"{t} branch", "constructs-same-type", f"the pickle branch for {t} constructs another class", loc(lp, stmts[0] if stmts else lp.node))
    for t, stmts in lb.items():
        if t not in containers:
            continue
        ctor = [n for st in stmts for n in ast.walk(st) if isinstance(n, ast.Call) and isinstance(n.func, ast.Name) and n.func.id in containers]
        res.check(any(c.func.id == t for c in ctor), "S-DISPATCH", load.short, f"{t} branch", "constructs-same-type", f"the json branch for {t} does not construct a {t}", loc(load, stmts[0] if stmts else load.node))
    # ---- S-JSONKEYS: reserved keys written == reserved keys read, per type
    for t in sorted(containers):
        if t not in sb or t not in lb:
            continue
        written = set()
        for var in _metadata_vars(sb[t]):
            written |= _const_subscript_stores(sb[t], var)
        written |= _dict_display_reserved(sb[t])
        read = _const_gets(lb[t])
        want = RESERVED[t]
        res.check(written == want, "S-JSONKEYS", save.short, f"{t}: reserved keys written {sorted(written)}", "written", f"the text writer stores {sorted(written)} next to the metadata of a {t} hyperedge; the format reserves {sorted(want)}", loc(save, sb[t][0] if sb[t] else save.node))
        res.check(read == want, "S-JSONKEYS", load.short, f"{t}: reserved keys read {sorted(read)}", "read", f"the text reader reads {sorted(read)} from the metadata of a {t} hyperedge; the writer stores {sorted(want)}", loc(load, lb[t][0] if lb[t] else load.node))
    # ---- record keys: writer dict displays vs reader subscripts
    wkeys = set()
    for n in ast.walk(save.node):
        if isinstance(n, ast.Dict) and n.keys and all(isinstance(k, ast.Constant) and isinstance(k.value, str) for k in n.keys if k is not None):
            ks = {k.value for k in n.keys if k is not None}
            if ks & {"type", "hypergraph_type"}:
                wkeys |= ks
    rkeys = set()
    for n in ast.walk(load.node):
        if isinstance(n, ast.Subscript) and isinstance(n.slice, ast.Constant) and isinstance(n.slice.value, str) and isinstance(n.value, ast.Name) and n.value.id in ("data", "node", "edge"):
            rkeys.add(n.slice.value)
        if isinstance(n, ast.Compare) and len(n.ops) == 1 and isinstance(n.ops[0], ast.In) and isinstance(n.left, ast.Constant) and isinstance(n.left.value, str) and isinstance(n.comparators[0], ast.Name) and n.comparators[0].id == "data":
            rkeys.add(n.left.value)
    res.check(rkeys <= wkeys, "S-JSONKEYS", load.short, f"record keys read {sorted(rkeys)}", "record-keys", f"the reader reads record keys {sorted(rkeys - wkeys)} that the writer never writes (writer: {sorted(wkeys)})", loc(load, load.node))
    res.check(wkeys <= rkeys, "S-JSONKEYS", save.short, f"record keys written {sorted(wkeys)}", "record-keys", f"the writer writes record keys {sorted(wkeys - rkeys)} that the reader never reads", loc(save, save.node))
    # node / edge record discriminators
    for val in ("node", "edge"):
        w = any(isinstance(n, ast.Dict) and any(isinstance(k, ast.Constant) and k.value == "type" and isinstance(v, ast.Constant) and v.value == val for k, v in zip(n.keys, n.values)) for n in ast.walk(save.node))
        r = any(isinstance(n, ast.Compare) and isinstance(n.comparators[0], ast.Constant) and n.comparators[0].value == val and isinstance(n.left, ast.Subscript) and isinstance(n.left.slice, ast.Constant) and n.left.slice.value == "type" for n in ast.walk(load.node))
        res.check(w and r, "S-JSONKEYS", save.short, f'"type": "{val}"', "discriminator", f"record type `{val}` is not both written and recognised", loc(save, save.node))


def _metadata_vars(stmts) -> Set[str]:
    """names that hold the per-edge metadata dict being written (loop targets over get_edges(metadata=True).items() and copies)."""
    out = set()
    for st in stmts:
        for n in ast.walk(st):
            if isinstance(n, ast.For) and isinstance(n.target, ast.Tuple) and len(n.target.elts) == 2 and isinstance(n.target.elts[1], ast.Name):
                out.add(n.target.elts[1].id)
            if isinstance(n, ast.Assign) and len(n.targets) == 1 and isinstance(n.targets[0], ast.Name):
                names = {x.id for x in ast.walk(n.value) if isinstance(x, ast.Name)}
                if names & out:
                    out.add(n.targets[0].id)
    return out


def _dict_display_reserved(stmts) -> Set[str]:
    """reserved keys introduced through dict displays / dict(..., k=v) / helper keywords: {**metadata, "weight": w}"""
    out = set()
    for st in stmts:
        for n in ast.walk(st):
            if isinstance(n, ast.Dict) and any(k is None for k in n.keys):
                for k in n.keys:
                    if isinstance(k, ast.Constant) and k.value in ("weight", "time", "layer"):
                        out.add(k.value)
            if isinstance(n, ast.Call):
                for kw in n.keywords:
                    if kw.arg in ("weight", "time", "layer") and isinstance(n.func, ast.Name) and n.func.id not in T.CONTAINERS:
                        # helper call such as write_edge(interaction, metadata, weight=...): only counted when the callee is not an API
                        if not (isinstance(n.func, ast.Attribute)):
                            out.add(kw.arg)
    return out


def check_reserved_win(ctx, res: Result):
    """The value stored under a reserved key is the live weight / time / layer: it is written AFTER the user's
    metadata was copied (subscript store on the copy, or later position than the `**metadata` unpack)."""
    save = ctx.require("save.save_hypergraph")
    found = 0
    for n in ast.walk(save.node):
        if isinstance(n, ast.Dict) and any(k is None for k in n.keys):
            pos_unpack = [i for i, k in enumerate(n.keys) if k is None]
            # {**a, **b}: which one is the user's metadata? the one named (or containing) "metadata"
            for i, (k, v) in enumerate(zip(n.keys, n.values)):
                if k is None and any(isinstance(x, ast.Name) and "meta" in x.id for x in ast.walk(v)):
                    later_reserved = [j for j, kk in enumerate(n.keys) if j > i and (isinstance(kk, ast.Constant) and kk.value in ("weight", "time", "layer") or (kk is None and any(isinstance(x, ast.Name) and x.id in ("reserved",) for x in ast.walk(n.values[j]))))]
                    earlier_reserved = [j for j, kk in enumerate(n.keys) if j < i and (isinstance(kk, ast.Constant) and kk.value in ("weight", "time", "layer") or kk is None)]
                    found += 1
                    res.check(not earlier_reserved, "S-RESERVED", save.short, norm(n), "order", "the user's metadata is unpacked AFTER the reserved keys: a `weight` / `time` / `layer` entry in the metadata overrides the live value in the file", loc(save, n))
    # subscript-store idiom: metadata = dict(metadata); metadata["weight"] = hypergraph.get_weight(...)
    for n in ast.walk(save.node):
        if isinstance(n, ast.Assign) and len(n.targets) == 1 and isinstance(n.targets[0], ast.Subscript) and isinstance(n.targets[0].slice, ast.Constant) and n.targets[0].slice.value in ("weight", "time", "layer"):
            key = n.targets[0].slice.value
            found += 1
            src_ok = {
                "weight": any(isinstance(x, ast.Call) and isinstance(x.func, ast.Attribute) and x.func.attr == "get_weight" for x in ast.walk(n.value)),
                "time": isinstance(n.value, ast.Name) and n.value.id == "time",
                "layer": isinstance(n.value, ast.Name) and n.value.id == "layer",
            }[key]
            res.check(src_ok, "S-RESERVED", save.short, norm(n), key, f"the reserved key `{key}` is not written from the hyperedge's live {key}", loc(save, n))
    if found == 0:
        raise AnalysisError("save_hypergraph: no reserved-key write recognised (idiom changed)")


def check_load_args(ctx, res: Result):
    """In every json branch the values handed to add_edge come from the record key of the same meaning."""
    load = ctx.require("load.load_hypergraph")
    lb = type_branches(load.node)
    SRC = {"interaction": "interaction", "weight": "weight", "time": "time", "layer": "layer", "metadata": "metadata"}
    POS = {"Hypergraph": ["edge", "weight", "metadata"], "DirectedHypergraph": ["edge", "weight", "metadata"], "TemporalHypergraph": ["edge", "time", "weight", "metadata"], "MultiplexHypergraph": ["edge", "layer", "weight", "metadata"]}
    ROLE_KEY = {"edge": "interaction", "weight": "weight", "time": "time", "layer": "layer", "metadata": "metadata"}
    for t, stmts in lb.items():
        if t not in T.CONTAINERS:
            continue
        defs: Dict[str, ast.AST] = {}
        for st in stmts:
            for n in ast.walk(st):
                if isinstance(n, ast.Assign) and len(n.targets) == 1 and isinstance(n.targets[0], ast.Name):
                    defs[n.targets[0].id] = n.value
        calls = [n for st in stmts for n in ast.walk(st) if isinstance(n, ast.Call) and isinstance(n.func, ast.Attribute) and n.func.attr == "add_edge"]
        res.check(bool(calls), "S-LOADARGS", load.short, f"{t}: H.add_edge(...)", "exists", f"the json branch for {t} never inserts the hyperedges", loc(load, stmts[0] if stmts else load.node))
        for c in calls:
            bound = {}
            for name, a in zip(POS[t], c.args):
                bound[name] = a
            for kw in c.keywords:
                if kw.arg:
                    bound[kw.arg] = kw.value
            for role, a in bound.items():
                want = ROLE_KEY.get(role)
                if want is None:
                    continue
                expr = defs.get(a.id, a) if isinstance(a, ast.Name) else a
                consts = {x.value for x in ast.walk(expr) if isinstance(x, ast.Constant) and isinstance(x.value, str)}
                ok = want in consts
                res.check(ok, "S-LOADARGS", load.short, f"{t}: {norm(c)}", role, f"add_edge receives as `{role}` a value read from {sorted(consts)} instead of the record's `{want}`", loc(load, c))
            need = set(POS[t]) - {"metadata"}
            missing = need - set(bound)
            res.check(not missing, "S-LOADARGS", load.short, f"{t}: {norm(c)}", "complete", f"add_edge is called without {sorted(missing)}", loc(load, c))
        nodes = [n for st in stmts for n in ast.walk(st) if isinstance(n, ast.Call) and isinstance(n.func, ast.Attribute) and n.func.attr == "add_node"]
        res.check(bool(nodes), "S-LOADARGS", load.short, f"{t}: H.add_node(...)", "nodes", f"the json branch for {t} never restores the nodes (isolated nodes are lost)", loc(load, stmts[0] if stmts else load.node))
        for c in nodes:
            consts = [[x.value for x in ast.walk(a) if isinstance(x, ast.Constant) and isinstance(x.value, str)] for a in c.args]
            ok = len(consts) >= 2 and "idx" in consts[0] and "metadata" in consts[1]
            res.check(ok, "S-LOADARGS", load.short, f"{t}: {norm(c)}", "node-fields", "add_node does not receive (record['idx'], record['metadata'])", loc(load, c))


def check_pickle(ctx, res: Result):
    for cls in T.CONTAINERS:
        ex = ctx.require(f"{cls}.expose_data_structures")
        po = ctx.require(f"{cls}.populate_from_dict")
        written: Dict[str, str] = {}
        for n in ast.walk(ex.node):
            if isinstance(n, ast.Return) and isinstance(n.value, ast.Dict):
                for k, v in zip(n.value.keys, n.value.values):
                    if isinstance(k, ast.Constant) and is_self_attr(v):
                        written[v.attr] = k.value
        read: Dict[str, str] = {}
        for n in ast.walk(po.node):
            if isinstance(n, ast.Assign) and len(n.targets) == 1 and is_self_attr(n.targets[0]):
                v = n.value
                key = None
                if isinstance(v, ast.Call) and isinstance(v.func, ast.Attribute) and v.func.attr == "get" and v.args and isinstance(v.args[0], ast.Constant):
                    key = v.args[0].value
                elif isinstance(v, ast.Subscript) and isinstance(v.slice, ast.Constant):
                    key = v.slice.value
                if key is not None:
                    read[n.targets[0].attr] = key
        if not written or not read:
            raise AnalysisError(f"{cls}: expose_data_structures / populate_from_dict idiom not recognised")
        for attr in PICKLE_ARMED[cls]:
            w, r = written.get(attr), read.get(attr)
            res.check(w is not None, "S-PICKLE", ex.short, f"self.{attr}", "exposed", f"{attr} is not part of the binary snapshot", loc(ex, ex.node))
            res.check(r is not None, "S-PICKLE", po.short, f"self.{attr}", "restored", f"{attr} is not restored from the binary snapshot", loc(po, po.node))
            if w is not None and r is not None:
                res.check(w == r, "S-PICKLE", po.short, f"self.{attr}", "same-key", f"{attr} is saved under '{w}' but restored from '{r}'", loc(po, po.node))
        # no two attributes share a key
        inv: Dict[str, List[str]] = {}
        for a, k in read.items():
            inv.setdefault(k, []).append(a)
        for k, attrs in inv.items():
            res.check(len(attrs) == 1, "S-PICKLE", po.short, f"data['{k}']", "unique", f"key '{k}' restores several attributes {attrs}", loc(po, po.node))
        tv = [v for k, v in zip(*_ret_dict(ex)) if isinstance(k, ast.Constant) and k.value == "type"]
        res.check(bool(tv) and isinstance(tv[0], ast.Constant) and tv[0].value == cls, "S-PICKLE", ex.short, '"type"', "type-tag", f"the snapshot of {cls} is tagged {norm(tv[0]) if tv else 'nothing'}", loc(ex, ex.node))


def _ret_dict(fi):
    for n in ast.walk(fi.node):
        if isinstance(n, ast.Return) and isinstance(n.value, ast.Dict):
            return n.value.keys, n.value.values
    return [], []


def check_hgr(ctx, res: Result):
    """hMETIS reader: in the weighted branch the weight list and the edge list grow together; edges are tuples of the entries."""
    load = ctx.require("load.load_hypergraph")
    wl = el = None
    ctor = None
    for n in ast.walk(load.node):
        if isinstance(n, ast.Call) and isinstance(n.func, ast.Name) and n.func.id == "Hypergraph" and any(k.arg == "edge_list" for k in n.keywords):
            ctor = n
    if ctor is None:
        raise AnalysisError("load_hypergraph: hgr constructor call not found")
    kw = {k.arg: k.value for k in ctor.keywords}
    el = kw.get("edge_list")
    wexpr = kw.get("weights")
    wl_name = next((x.id for x in ast.walk(wexpr) if isinstance(x, ast.Name) and x.id != "mode"), None) if wexpr is not None else None
    el_name = el.id if isinstance(el, ast.Name) else None
    res.check(wl_name is not None and el_name is not None, "S-HGR", load.short, norm(ctor), "ctor", "the hMETIS reader does not hand the edge list and the weight list to the constructor", loc(load, ctor))
    grows = {wl_name: [], el_name: []}
    for n in ast.walk(load.node):
        if isinstance(n, ast.AugAssign) and isinstance(n.target, ast.Name) and n.target.id in grows:
            grows[n.target.id].append(n)
        if isinstance(n, ast.Call) and isinstance(n.func, ast.Attribute) and n.func.attr == "append" and isinstance(n.func.value, ast.Name) and n.func.value.id in grows:
            grows[n.func.value.id].append(n)
    v = ctx.view("load.load_hypergraph")
    for w in grows.get(wl_name, []):
        # some edge-list growth in the same block
        blk = v.parent.get(id(v.stmt_of(w)))
        same = [e for e in grows.get(el_name, []) if v.parent.get(id(v.stmt_of(e))) is blk]
        res.check(bool(same), "S-HGR", load.short, norm(w), "paired", "a weight is recorded without its hyperedge (weights and hyperedges get out of step)", loc(load, w))
    for e in grows.get(el_name, []):
        blk = v.parent.get(id(v.stmt_of(e)))
        in_weighted = isinstance(blk, ast.If) and any(isinstance(x, ast.Constant) and x.value == 1 for x in ast.walk(blk.test)) and any(isinstance(o, ast.Eq) for c in ast.walk(blk.test) if isinstance(c, ast.Compare) for o in c.ops) and v.stmt_of(e) in blk.body
        if in_weighted:
            same = [w for w in grows.get(wl_name, []) if v.parent.get(id(v.stmt_of(w))) is blk]
            res.check(bool(same), "S-HGR", load.short, norm(e), "paired", "a weighted hyperedge is recorded without its weight", loc(load, e))
            sl = [x for x in ast.walk(e) if isinstance(x, ast.Subscript) and isinstance(x.slice, ast.Slice)]
            res.check(any(isinstance(s.slice.lower, ast.Constant) and s.slice.lower.value == 1 and s.slice.upper is None for s in sl), "S-HGR", load.short, norm(e), "skip-weight", "the weighted hyperedge is not built from the entries after the weight", loc(load, e))

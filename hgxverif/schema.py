"""Writer / reader schema agreement (DESIGN 2.G): S-PICKLE, S-JSONKEYS, S-RESERVED, S-DISPATCH, S-LOADARGS, S-HGR,
S-HASHFIELDS, S-HASHSORT."""
from __future__ import annotations

import ast
from typing import Dict, List, Optional, Set, Tuple

from . import tables as T
from .model import AnalysisError, is_self_attr, loc, norm, walk_no_nested
from .report import Result

RESERVED = {"Hypergraph": {"weight"}, "DirectedHypergraph": {"weight"}, "TemporalHypergraph": {"weight", "time"}, "MultiplexHypergraph": {"weight", "layer"}}
# attributes the queries of C06 read (DESIGN 3/C06): these must survive the binary snapshot
PICKLE_ARMED = {
    "Hypergraph": ["_weighted", "_adj", "_edge_list", "_weights", "_hypergraph_metadata", "_node_metadata", "_edge_metadata", "_reverse_edge_list", "_next_edge_id"],
    "DirectedHypergraph": ["_weighted", "_adj_source", "_adj_target", "_edge_list", "_weights", "_hypergraph_metadata", "_node_metadata", "_edge_metadata", "_reverse_edge_list", "_next_edge_id"],
    "TemporalHypergraph": ["_weighted", "_adj", "_edge_list", "_weights", "_hypergraph_metadata", "_node_metadata", "_edge_metadata", "_reverse_edge_list", "_next_edge_id"],
    "MultiplexHypergraph": ["_weighted", "_adj", "_edge_list", "_weights", "_hypergraph_metadata", "_node_metadata", "_edge_metadata", "_reverse_edge_list", "_next_edge_id", "_existing_layers"],
}


# ------------------------------------------------------------------------------- closures of helper functions
def closure(ctx, fi, prefix="hypergraphx.readwrite", limit=40):
    """`fi` and the module-level helpers of the readwrite package it (transitively) calls - a reader / writer that was
    split into helpers is still analysed as a whole."""
    out, todo = [fi], [fi]
    while todo and len(out) < limit:
        f = todo.pop()
        for n in ast.walk(f.node):
            if isinstance(n, ast.Call):
                for c in ctx.callees(f, n):
                    if c.module.name.startswith(prefix) and c not in out:
                        out.append(c)
                        todo.append(c)
        # helpers used as VALUES: a function named in the body, or in a module-level table the body names
        # (`_RECORDS_BY_TYPE = {"Hypergraph": _plain_records, ...}` ... `_RECORDS_BY_TYPE[t](h)`)
        from .model import FunctionInfo

        named = []
        for n in ast.walk(f.node):
            if isinstance(n, ast.Name) and isinstance(n.ctx, ast.Load):
                named.append(n.id)
        for name in list(named):
            for st in f.module.tree.body:
                if isinstance(st, (ast.Assign, ast.AnnAssign)) and st.value is not None and any(isinstance(t_, ast.Name) and t_.id == name for t_ in (st.targets if isinstance(st, ast.Assign) else [st.target])):
                    named += [x.id for x in ast.walk(st.value) if isinstance(x, ast.Name) and isinstance(x.ctx, ast.Load)]
        for name in named:
            c = ctx.prog.resolve_name(f.module, name)
            if isinstance(c, FunctionInfo) and c.module.name.startswith(prefix) and c not in out and len(out) < limit:
                out.append(c)
                todo.append(c)
    return out


def _module_tables(fis) -> Dict[str, Set[str]]:
    """container class names paired with their own name in a module-level literal of the analysed modules:
    (("Hypergraph", Hypergraph), ...) or {"Hypergraph": Hypergraph, ...} -> {"Hypergraph": {"Hypergraph"}}"""
    out: Dict[str, Set[str]] = {}
    seen = set()
    for fi in fis:
        m = fi.module
        if m.name in seen:
            continue
        seen.add(m.name)
        for st in m.tree.body:
            if not isinstance(st, (ast.Assign, ast.AnnAssign)) or st.value is None:
                continue
            for n in ast.walk(st.value):
                pairs = []
                if isinstance(n, ast.Tuple) and len(n.elts) >= 2 and isinstance(n.elts[0], ast.Constant) and isinstance(n.elts[0].value, str):
                    pairs = [(n.elts[0].value, x) for x in n.elts[1:]]
                elif isinstance(n, ast.Dict):
                    pairs = [(k.value, v) for k, v in zip(n.keys, n.values) if isinstance(k, ast.Constant) and isinstance(k.value, str)]
                for name, v in pairs:
                    if name in T.CONTAINERS:
                        out.setdefault(name, set()).update(x.id for x in ast.walk(v) if isinstance(x, ast.Name) and x.id in T.CONTAINERS)
    return out


# ------------------------------------------------------------------------------- type dispatch
def type_branches(fn: ast.AST, var_names=None) -> Dict[str, List[ast.stmt]]:
    """type name -> statements executed when the dispatch value equals it (If/elif chains on `x == 'X'` / `x in [...]`
    where the constants are container class names)."""
    out: Dict[str, List[ast.stmt]] = {}
    # boolean locals that name a type test: `is_multiplex = hypergraph_type == "MultiplexHypergraph"` (assigned once)
    counts: Dict[str, int] = {}
    vals: Dict[str, ast.AST] = {}
    for n in ast.walk(fn):
        if isinstance(n, ast.Name) and isinstance(n.ctx, ast.Store):
            counts[n.id] = counts.get(n.id, 0) + 1
        if isinstance(n, ast.Assign) and len(n.targets) == 1 and isinstance(n.targets[0], ast.Name) and isinstance(n.value, (ast.Compare, ast.Call, ast.BoolOp)):
            vals[n.targets[0].id] = n.value
    aliases = {k: v_ for k, v_ in vals.items() if counts.get(k) == 1}

    def names_of(test, depth=0) -> Optional[Set[str]]:
        if isinstance(test, ast.Name) and test.id in aliases and depth < 3:
            return names_of(aliases[test.id], depth + 1)
        if isinstance(test, ast.BoolOp) and isinstance(test.op, ast.Or) and depth < 3:
            parts = [names_of(x, depth + 1) for x in test.values]
            return set().union(*parts) if all(p_ is not None for p_ in parts) else None
        if isinstance(test, ast.Compare) and len(test.ops) == 1 and isinstance(test.ops[0], ast.Eq) and isinstance(test.left, ast.Constant) and isinstance(test.comparators[0], (ast.Name, ast.Subscript, ast.Attribute)):
            test = ast.Compare(left=test.comparators[0], ops=test.ops, comparators=[test.left])  # "X" == t
        if isinstance(test, ast.Compare) and len(test.ops) == 1 and isinstance(test.left, (ast.Name, ast.Subscript, ast.Attribute)):
            if var_names is not None and not (isinstance(test.left, ast.Name) and test.left.id in var_names):
                return None
            r = test.comparators[0]
            if isinstance(test.ops[0], ast.Eq) and isinstance(r, ast.Constant) and isinstance(r.value, str) and r.value in T.CONTAINERS:
                return {r.value}
            if isinstance(test.ops[0], ast.In) and isinstance(r, (ast.List, ast.Tuple, ast.Set)) and r.elts and all(isinstance(e, ast.Constant) and e.value in T.CONTAINERS for e in r.elts):
                return {e.value for e in r.elts}
        if isinstance(test, ast.Call) and isinstance(test.func, ast.Name) and test.func.id == "isinstance" and len(test.args) == 2:
            r = test.args[1]
            elts = r.elts if isinstance(r, ast.Tuple) else [r]
            if elts and all(isinstance(e, ast.Name) and e.id in T.CONTAINERS for e in elts):
                return {e.id for e in elts}
        return None

    def visit(stmts, active: Optional[Set[str]]):
        for st in stmts:
            if isinstance(st, ast.If):
                test, body, orelse = st.test, st.body, st.orelse
                if isinstance(test, ast.UnaryOp) and isinstance(test.op, ast.Not):
                    test, body, orelse = test.operand, st.orelse, st.body  # `if not (t == "X"): A else: B`
                elif isinstance(test, ast.Compare) and len(test.ops) == 1 and isinstance(test.ops[0], (ast.NotEq, ast.NotIn)):
                    test = ast.Compare(left=test.left, ops=[ast.Eq() if isinstance(test.ops[0], ast.NotEq) else ast.In()], comparators=test.comparators)
                    body, orelse = st.orelse, st.body
                ns = names_of(test)
                if ns is not None:
                    sub = ns if active is None else (ns & active)
                    for n in sub:
                        out.setdefault(n, [])
                    visit(body, sub)
                    # the other branch is reached for the remaining types only (when they are known)
                    visit(orelse, active if active is None else (active - ns))
                    continue
            if active is not None:
                for n in active:
                    out.setdefault(n, []).append(st)
            for fld in ("body", "orelse", "finalbody"):
                subl = getattr(st, fld, None)
                if isinstance(subl, list) and not isinstance(st, (ast.FunctionDef, ast.ClassDef)):
                    visit(subl, active)
            if isinstance(st, ast.Try):
                for h in st.handlers:
                    visit(h.body, active)

    visit(fn.body, None)
    return out


class Dispatch:
    """Type dispatch of a reader / writer over its closure of helpers."""

    def __init__(self, ctx, fi):
        self.ctx, self.fi = ctx, fi
        self.fis = closure(ctx, fi)
        self.branches: Dict[str, List[Tuple[object, ast.stmt]]] = {}  # type -> [(function, statement)]
        for f in self.fis:
            for t, stmts in type_branches(f.node).items():
                self.branches.setdefault(t, []).extend((f, st) for st in stmts)
        self.tables = _module_tables(self.fis)
        self.handled = set(self.branches) | set(self.tables)

    def stmts(self, t) -> List[ast.stmt]:
        return [st for _, st in self.branches.get(t, [])]

    def stmts_with_helpers(self, t) -> Tuple[List[ast.AST], bool]:
        """statements of the branch for `t` plus the bodies of the readwrite helpers called from it; second value:
        whether such helpers exist (then facts about the branch may live in code shared with other branches)"""
        out = list(self.stmts(t))
        helpers = []
        for f, st in self.branches.get(t, []):
            for n in ast.walk(st):
                if isinstance(n, ast.Call):
                    for c in self.ctx.callees(f, n):
                        if c.module.name.startswith("hypergraphx.readwrite") and c not in helpers:
                            helpers.append(c)
        for h in helpers:
            out.extend(h.node.body)
        return out, bool(helpers)

    def classes_in(self, t) -> Set[str]:
        """container classes named in the branch for `t` (constructed there, or handed to a helper that constructs)"""
        names = {x.id for st in self.stmts(t) for x in ast.walk(st) if isinstance(x, ast.Name) and isinstance(x.ctx, ast.Load) and x.id in T.CONTAINERS}
        if not names:
            names = {x.id for st in self.stmts_with_helpers(t)[0] for x in ast.walk(st) if isinstance(x, ast.Name) and isinstance(x.ctx, ast.Load) and x.id in T.CONTAINERS}
        return names | self.tables.get(t, set())


def _const_subscript_stores(stmts, var: str) -> Set[str]:
    out = set()
    for st in stmts:
        for n in ast.walk(st):
            if isinstance(n, ast.Subscript) and isinstance(n.ctx, ast.Store) and isinstance(n.value, ast.Name) and n.value.id == var and isinstance(n.slice, ast.Constant) and isinstance(n.slice.value, str):
                out.add(n.slice.value)
    return out


def _const_gets(stmts) -> Set[str]:
    """keys read as <x>["metadata"].get("k") or <x>["metadata"]["k"]"""
    out = set()
    for st in stmts:
        for n in ast.walk(st):
            if isinstance(n, ast.Call) and isinstance(n.func, ast.Attribute) and n.func.attr == "get" and n.args and isinstance(n.args[0], ast.Constant) and isinstance(n.args[0].value, str):
                base = n.func.value
                if isinstance(base, ast.Subscript) and isinstance(base.slice, ast.Constant) and base.slice.value == "metadata":
                    out.add(n.args[0].value)
            if isinstance(n, ast.Subscript) and isinstance(n.ctx, ast.Load) and isinstance(n.slice, ast.Constant) and isinstance(n.value, ast.Subscript) and isinstance(n.value.slice, ast.Constant) and n.value.slice.value == "metadata" and isinstance(n.slice.value, str):
                out.add(n.slice.value)
    return out


def _loop_vars(fis, lenient=False) -> Dict[int, Set[str]]:
    """per function (id of its node): names bound by `for x in <...>` / comprehensions - the records of a record list"""
    out: Dict[int, Set[str]] = {}
    for f in fis:
        names = set()
        for n in ast.walk(f.node):
            if isinstance(n, (ast.For, ast.comprehension)) and isinstance(n.target, ast.Name):
                names.add(n.target.id)
        # a private helper that is handed one record (`_read_edge_record(H, edge, weighted)`): its parameters may be records
        if lenient and f is not fis[0] and f.name.startswith("_"):
            names |= {a.arg for a in f.params}
        out[id(f.node)] = names
    return out


def _record_keys_read(fis, lenient=False) -> Set[str]:
    """constant keys looked up on a record (a loop variable): r["k"], r.get("k"), "k" in r"""
    out = set()
    lv = _loop_vars(fis, lenient)
    for f in fis:
        names = lv[id(f.node)]
        for n in ast.walk(f.node):
            if isinstance(n, ast.Subscript) and isinstance(n.slice, ast.Constant) and isinstance(n.slice.value, str) and isinstance(n.value, ast.Name) and n.value.id in names:
                out.add(n.slice.value)
            if isinstance(n, ast.Compare) and len(n.ops) == 1 and isinstance(n.ops[0], (ast.In, ast.NotIn)) and isinstance(n.left, ast.Constant) and isinstance(n.left.value, str) and isinstance(n.comparators[0], ast.Name) and n.comparators[0].id in names:
                out.add(n.left.value)
            if isinstance(n, ast.Call) and isinstance(n.func, ast.Attribute) and n.func.attr == "get" and n.args and isinstance(n.args[0], ast.Constant) and isinstance(n.args[0].value, str) and isinstance(n.func.value, ast.Name) and n.func.value.id in names:
                out.add(n.args[0].value)
    return out


def check_json_schema(ctx, res: Result):
    save = ctx.require("save.save_hypergraph")
    load = ctx.require("load.load_hypergraph")
    lp = ctx.require("load._load_pickle")
    sd, ld, pd = Dispatch(ctx, save), Dispatch(ctx, load), Dispatch(ctx, lp)
    containers = set(T.CONTAINERS)
    # ---- S-DISPATCH: a recognised dispatch that leaves out an exported class is wrong; none recognised -> unknown
    for d, fi, tag, exact in ((sd, save, "save", True), (ld, load, "load-json", False), (pd, lp, "load-pickle", True)):
        if not d.handled:
            res.unknown("S-DISPATCH", fi.short, "type dispatch", tag, "no dispatch on the container type was recognised", loc(fi, fi.node))
            continue
        missing = containers - d.handled
        res.check(not missing, "S-DISPATCH", fi.short, "type dispatch", tag, f"{fi.short} handles {sorted(d.handled)}; the exported container classes are {sorted(containers)}", loc(fi, fi.node))
    for d, fi, what in ((pd, lp, "pickle"), (ld, load, "json")):
        for t in sorted(d.handled & containers):
            cl = d.classes_in(t)
            where = loc(fi, d.stmts(t)[0]) if d.stmts(t) else loc(fi, fi.node)
            if not cl:
                res.unknown("S-DISPATCH", fi.short, f"{t} branch", "constructs-same-type", f"no container class is named in the {what} branch for {t}", where)
            else:
                res.check(t in cl and (what == "json" or cl == {t}), "S-DISPATCH", fi.short, f"{t} branch", "constructs-same-type", f"the {what} branch for {t} constructs {sorted(cl)}", where)
    # ---- S-JSONKEYS: reserved keys written == reserved keys read, per type
    for t in sorted(containers):
        want = RESERVED[t]
        if sd.stmts(t):
            stmts, helpers = sd.stmts_with_helpers(t)
            written = set()
            for var in _metadata_vars(stmts):
                written |= _const_subscript_stores(stmts, var)
            written |= _dict_display_reserved(stmts)
            where = loc(save, sd.stmts(t)[0])
            extra, missing = written - want, want - written
            if extra:
                res.violation("S-JSONKEYS", save.short, f"{t}: reserved keys written {sorted(written)}", "written", f"the text writer stores {sorted(written)} next to the metadata of a {t} hyperedge; the format reserves {sorted(want)}", where)
            elif missing and not helpers and written:
                res.violation("S-JSONKEYS", save.short, f"{t}: reserved keys written {sorted(written)}", "written", f"the text writer stores {sorted(written)} next to the metadata of a {t} hyperedge; the format reserves {sorted(want)}", where)
            elif missing:
                res.unknown("S-JSONKEYS", save.short, f"{t}: reserved keys written {sorted(written)}", "written", f"writes of {sorted(missing)} were not recognised in the branch for {t}", where)
            else:
                res.ok("S-JSONKEYS", save.short, f"{t}: reserved keys written {sorted(written)}", "written", where)
        else:
            res.unknown("S-JSONKEYS", save.short, f"{t}: reserved keys written", "written", f"no branch of the writer is specific to {t}", loc(save, save.node))
        if ld.stmts(t):
            stmts, helpers = ld.stmts_with_helpers(t)
            read = _const_gets(stmts)
            where = loc(load, ld.stmts(t)[0])
            extra, missing = read - want, want - read
            if extra:
                res.violation("S-JSONKEYS", load.short, f"{t}: reserved keys read {sorted(read)}", "read", f"the text reader reads {sorted(read)} from the metadata of a {t} hyperedge; the writer stores {sorted(want)}", where)
            elif missing and not helpers and read:
                res.violation("S-JSONKEYS", load.short, f"{t}: reserved keys read {sorted(read)}", "read", f"the text reader reads {sorted(read)} from the metadata of a {t} hyperedge; the writer stores {sorted(want)}", where)
            elif missing:
                res.unknown("S-JSONKEYS", load.short, f"{t}: reserved keys read {sorted(read)}", "read", f"reads of {sorted(missing)} were not recognised in the branch for {t}", where)
            else:
                res.ok("S-JSONKEYS", load.short, f"{t}: reserved keys read {sorted(read)}", "read", where)
        else:
            res.unknown("S-JSONKEYS", load.short, f"{t}: reserved keys read", "read", f"no branch of the reader is specific to {t}", loc(load, load.node))
    # ---- record keys: writer dict displays vs reader lookups on records
    wkeys = set()
    wdicts = []
    for f in sd.fis:
        for n in ast.walk(f.node):
            if isinstance(n, ast.Dict) and n.keys and all(isinstance(k, ast.Constant) and isinstance(k.value, str) for k in n.keys if k is not None):
                ks = {k.value for k in n.keys if k is not None}
                if ks & {"type", "hypergraph_type"}:
                    wkeys |= ks
                    wdicts.append(n)
    rkeys = _record_keys_read(ld.fis)
    if not wkeys or not rkeys:
        res.unknown("S-JSONKEYS", save.short, "record keys", "record-keys", f"record displays of the writer ({sorted(wkeys)}) / record lookups of the reader ({sorted(rkeys)}) not recognised", loc(save, save.node))
    else:
        res.check(rkeys <= wkeys, "S-JSONKEYS", load.short, f"record keys read {sorted(rkeys)}", "record-keys", f"the reader reads record keys {sorted(rkeys - wkeys)} that the writer never writes (writer: {sorted(wkeys)})", loc(load, load.node))
        rk_all = rkeys | _record_keys_read(ld.fis, lenient=True)
        # the reader looks records up by computed key (`for field in header: if field in record: ... record[field]`):
        # which keys it reads is then not visible in the lookups
        lvl = _loop_vars(ld.fis, lenient=True)
        computed = any(
            (isinstance(n, ast.Subscript) and isinstance(n.value, ast.Name) and n.value.id in lvl[id(f_.node)] and not isinstance(n.slice, (ast.Constant, ast.Slice)))
            or (isinstance(n, ast.Compare) and len(n.ops) == 1 and isinstance(n.ops[0], (ast.In, ast.NotIn)) and isinstance(n.comparators[0], ast.Name) and n.comparators[0].id in lvl[id(f_.node)] and not isinstance(n.left, ast.Constant))
            for f_ in ld.fis
            for n in ast.walk(f_.node)
        )
        if computed and not wkeys <= rk_all:
            res.unknown("S-JSONKEYS", save.short, f"record keys written {sorted(wkeys)}", "record-keys", f"the reader looks records up by computed key; reads of {sorted(wkeys - rk_all)} were not recognised", loc(save, save.node))
            rk_all = rk_all | wkeys
        res.check(wkeys <= rk_all, "S-JSONKEYS", save.short, f"record keys written {sorted(wkeys)}", "record-keys", f"the writer writes record keys {sorted(wkeys - rkeys)} that the reader never reads", loc(save, save.node))
    # node / edge record discriminators
    for val in ("node", "edge"):
        w = any(any(isinstance(k, ast.Constant) and k.value == "type" and isinstance(v, ast.Constant) and v.value == val for k, v in zip(n.keys, n.values)) for n in wdicts)
        r = any(isinstance(n, ast.Compare) and isinstance(n.comparators[0], ast.Constant) and n.comparators[0].value == val and isinstance(n.left, ast.Subscript) and isinstance(n.left.slice, ast.Constant) and n.left.slice.value == "type" for f in ld.fis for n in ast.walk(f.node))
        others_w = {v.value for n in wdicts for k, v in zip(n.keys, n.values) if isinstance(k, ast.Constant) and k.value == "type" and isinstance(v, ast.Constant)}
        others_r = {n.comparators[0].value for f in ld.fis for n in ast.walk(f.node) if isinstance(n, ast.Compare) and isinstance(n.comparators[0], ast.Constant) and isinstance(n.left, ast.Subscript) and isinstance(n.left.slice, ast.Constant) and n.left.slice.value == "type"}
        if w and r:
            res.ok("S-JSONKEYS", save.short, f'"type": "{val}"', "discriminator", loc(save, save.node))
        elif (others_w and others_r) and (w or r or others_w != others_r):
            res.violation("S-JSONKEYS", save.short, f'"type": "{val}"', "discriminator", f"record type `{val}` is not both written and recognised (written: {sorted(others_w)}, recognised: {sorted(others_r)})", loc(save, save.node))
        else:
            res.unknown("S-JSONKEYS", save.short, f'"type": "{val}"', "discriminator", "record discriminators not recognised", loc(save, save.node))


def _metadata_vars(stmts) -> Set[str]:
    """names that hold the per-edge metadata dict being written (loop targets over get_edges(metadata=True).items() and copies)."""
    out = set()
    for st in stmts:
        for n in ast.walk(st):
            if isinstance(n, ast.For) and isinstance(n.target, ast.Tuple) and len(n.target.elts) == 2 and isinstance(n.target.elts[1], ast.Name):
                out.add(n.target.elts[1].id)
            if isinstance(n, ast.Assign) and len(n.targets) == 1 and isinstance(n.targets[0], ast.Name):
                names = {x.id for x in ast.walk(n.value) if isinstance(x, ast.Name)}
                if names & out:
                    out.add(n.targets[0].id)
    return out


def _dict_display_reserved(stmts) -> Set[str]:
    """reserved keys introduced through dict displays / dict(..., k=v) / helper keywords: {**metadata, "weight": w}"""
    out = set()
    for st in stmts:
        for n in ast.walk(st):
            if isinstance(n, ast.Dict) and any(k is None for k in n.keys):
                for k in n.keys:
                    if isinstance(k, ast.Constant) and k.value in ("weight", "time", "layer"):
                        out.add(k.value)
            if isinstance(n, ast.Call):
                for kw in n.keywords:
                    if kw.arg in ("weight", "time", "layer") and isinstance(n.func, ast.Name) and n.func.id not in T.CONTAINERS:
                        # helper call such as write_edge(interaction, metadata, weight=...): only counted when the callee is not an API
                        if not (isinstance(n.func, ast.Attribute)):
                            out.add(kw.arg)
    return out


def check_reserved_win(ctx, res: Result):
    """The value stored under a reserved key is the live weight / time / layer: it is written AFTER the user's
    metadata was copied (subscript store on the copy, or later position than the `**metadata` unpack)."""
    save = ctx.require("save.save_hypergraph")
    found = 0
    # ---- the reserved keys are written whatever the user's metadata holds: a merge that is skipped when the metadata already
    # has a `weight` / `time` / `layer` entry lets that (stale - every object loaded from a text file has one) entry through
    for f_ in closure(ctx, save):
        fv = ctx.view(f_)
        for n in walk_no_nested(f_.node):
            is_merge = isinstance(n, ast.Dict) and any(k is None for k in n.keys) and len(n.keys) >= 2 and any(k is None and any(isinstance(x, ast.Name) and "meta" in x.id for x in ast.walk(v_)) for k, v_ in zip(n.keys, n.values))
            is_store = isinstance(n, ast.Assign) and len(n.targets) == 1 and isinstance(n.targets[0], ast.Subscript) and isinstance(n.targets[0].slice, ast.Constant) and n.targets[0].slice.value in ("weight", "time", "layer")
            if not (is_merge or is_store):
                continue
            for iff in fv.enclosing_all(n, (ast.If, ast.IfExp)):
                t_i = fv.inline(iff.test, depth=2)
                probes = [c for c in ast.walk(t_i) if isinstance(c, ast.Compare) and len(c.ops) == 1 and isinstance(c.ops[0], (ast.In, ast.NotIn)) and any(isinstance(x, ast.Name) and "meta" in x.id for x in ast.walk(c.comparators[0]))]
                if probes:
                    found += 1
                    res.violation("S-RESERVED", f_.short, norm(iff.test)[:80], "always", f"the reserved keys are merged into the record only when `{norm(iff.test)[:60]}` - a test on what the user's metadata already contains: a `weight` / `time` / `layer` entry sitting in the metadata (every hypergraph loaded from a text file has them) is written instead of the live value", loc(f_, iff))
    for n in [x for f_ in closure(ctx, save) for x in walk_no_nested(f_.node)]:
        if isinstance(n, ast.Dict) and any(k is None for k in n.keys):
            pos_unpack = [i for i, k in enumerate(n.keys) if k is None]
            # {**a, **b}: which one is the user's metadata? the one named (or containing) "metadata"
            for i, (k, v) in enumerate(zip(n.keys, n.values)):
                if k is None and any(isinstance(x, ast.Name) and "meta" in x.id for x in ast.walk(v)):
                    later_reserved = [j for j, kk in enumerate(n.keys) if j > i and (isinstance(kk, ast.Constant) and kk.value in ("weight", "time", "layer") or (kk is None and any(isinstance(x, ast.Name) and x.id in ("reserved",) for x in ast.walk(n.values[j]))))]
                    earlier_reserved = [j for j, kk in enumerate(n.keys) if j < i and (isinstance(kk, ast.Constant) and kk.value in ("weight", "time", "layer") or kk is None)]
                    found += 1
                    res.check(not earlier_reserved, "S-RESERVED", save.short, norm(n), "order", "the user's metadata is unpacked AFTER the reserved keys: a `weight` / `time` / `layer` entry in the metadata overrides the live value in the file", loc(save, n))
    # update idiom: `fields = {reserved...}; fields.update(metadata)` - the user's entries are applied LAST and win
    RES = ("weight", "time", "layer")
    units = []
    for f_ in closure(ctx, save):
        units += [x for x in ast.walk(f_.node) if isinstance(x, (ast.FunctionDef, ast.AsyncFunctionDef))]
    seen_u = set()
    for fn in units:
        if id(fn) in seen_u:
            continue
        seen_u.add(id(fn))
        own = [x for x in walk_no_nested(fn)]
        kwparam = fn.args.kwarg.arg if fn.args.kwarg else None
        # call sites of this unit that pass reserved keywords (for a **kwargs parameter)
        passes_reserved = any(isinstance(c, ast.Call) and isinstance(c.func, ast.Name) and c.func.id == fn.name and any(kw.arg in RES for kw in c.keywords) for c in ast.walk(save.module.tree))
        for n in own:
            if not (isinstance(n, ast.Call) and isinstance(n.func, ast.Attribute) and n.func.attr == "update" and isinstance(n.func.value, ast.Name) and len(n.args) == 1 and not n.keywords):
                continue
            if not any(isinstance(x, ast.Name) and "meta" in x.id for x in ast.walk(n.args[0])):
                continue
            d = n.func.value.id
            holds_reserved = False
            for m in own:
                if getattr(m, "lineno", 0) >= n.lineno:
                    continue
                if isinstance(m, ast.Assign) and len(m.targets) == 1:
                    t = m.targets[0]
                    if isinstance(t, ast.Name) and t.id == d:
                        val = m.value
                        if any(isinstance(x, ast.Constant) and x.value in RES for x in ast.walk(val)) or (kwparam and passes_reserved and any(isinstance(x, ast.Name) and x.id == kwparam for x in ast.walk(val))):
                            holds_reserved = True
                        elif any(isinstance(x, ast.Name) and "meta" in x.id for x in ast.walk(val)):
                            holds_reserved = False
                    if isinstance(t, ast.Subscript) and isinstance(t.value, ast.Name) and t.value.id == d and isinstance(t.slice, ast.Constant) and t.slice.value in RES:
                        holds_reserved = True
            if holds_reserved:
                found += 1
                res.violation("S-RESERVED", save.short, norm(n), "order", f"`{d}` already holds the reserved keys when the user's metadata is merged into it with update(): a `weight` / `time` / `layer` entry in the metadata overrides the live value in the file", loc(save, n))
    # subscript-store idiom: metadata = dict(metadata); metadata["weight"] = hypergraph.get_weight(...)
    for n in ast.walk(save.node):
        if isinstance(n, ast.Assign) and len(n.targets) == 1 and isinstance(n.targets[0], ast.Subscript) and isinstance(n.targets[0].slice, ast.Constant) and n.targets[0].slice.value in ("weight", "time", "layer"):
            key = n.targets[0].slice.value
            found += 1
            from .kinds import LAYER, TIME, WEIGHT, Atom, _Top, strip_none

            vk = strip_none(ctx.interp.kind_at(save, n.value))
            want = {"weight": WEIGHT, "time": TIME, "layer": LAYER}[key]
            if key == "weight" and any(isinstance(x, ast.Call) and isinstance(x.func, ast.Attribute) and x.func.attr == "get_weight" for x in ast.walk(n.value)):
                st = "ok"
            elif vk == want:
                st = "ok"
            elif isinstance(vk, Atom) and vk.name in ("WEIGHT", "TIME", "LAYER", "NODE", "EID", "META") or isinstance(n.value, ast.Constant):
                st = "violation"  # positively another quantity (or a constant)
            else:
                st = "unknown"
            res.add("S-RESERVED", save.short, norm(n), key, st, "" if st == "ok" else f"the reserved key `{key}` is not written from the hyperedge's live {key} (value kind {vk!r})", loc(save, n))
            # the reserved key is written on EVERY record of a weighted / temporal / multiplex hypergraph: a write that is skipped
            # for some values (`if weight != 1:`) lets a stale entry of the same name in the user's metadata through
            sv_ = ctx.view(save)
            for iff in sv_.enclosing_all(n, (ast.If,)):
                if not any(n is y for st_ in iff.body for y in ast.walk(st_)) and not any(n is y for st_ in iff.orelse for y in ast.walk(st_)):
                    continue
                t_i = sv_.inline(iff.test)
                names_ = {x.id for x in ast.walk(t_i) if isinstance(x, ast.Name)} | {x.attr for x in ast.walk(t_i) if isinstance(x, ast.Attribute)}
                about_kind = any("weighted" in nm or "type" in nm.lower() for nm in names_) or any(isinstance(x, ast.Call) and isinstance(x.func, ast.Name) and x.func.id == "isinstance" for x in ast.walk(t_i)) or any(isinstance(x, ast.Constant) and isinstance(x.value, str) and x.value in T.CONTAINERS for x in ast.walk(t_i))
                value_dep = bool(names_ & {x.id for x in ast.walk(n.value) if isinstance(x, ast.Name)}) or any(isinstance(x, ast.Call) and isinstance(x.func, ast.Attribute) and x.func.attr == "get_weight" for x in ast.walk(t_i))
                if not about_kind and value_dep:
                    res.violation("S-RESERVED", save.short, norm(iff.test)[:80], key + ":always", f"the reserved key `{key}` is written only when `{norm(iff.test)[:60]}`: for the other records a `{key}` entry already present in the user's metadata (every hypergraph loaded from a text file has one) goes into the file instead and is read back as the {key}", loc(save, iff))
    if found == 0:
        raise AnalysisError("save_hypergraph: no reserved-key write recognised (idiom changed)")


def _str_consts(ctx, fi, expr, depth=0) -> Set[str]:
    """string constants in `expr`, following calls of readwrite helpers into their bodies"""
    out = {x.value for x in ast.walk(expr) if isinstance(x, ast.Constant) and isinstance(x.value, str)}
    if depth < 2 and fi is not None:
        for n in ast.walk(expr):
            if isinstance(n, ast.Call):
                for c in ctx.callees(fi, n):
                    if c.module.name.startswith("hypergraphx.readwrite"):
                        for st in c.node.body:
                            if not (isinstance(st, ast.Expr) and isinstance(st.value, ast.Constant)):  # docstring
                                out |= _str_consts(ctx, c, st, depth + 1)
    return out


def check_load_args(ctx, res: Result):
    """In every json branch the values handed to add_edge come from the record key of the same meaning."""
    load = ctx.require("load.load_hypergraph")
    ld = Dispatch(ctx, load)
    POS = {"Hypergraph": ["edge", "weight", "metadata"], "DirectedHypergraph": ["edge", "weight", "metadata"], "TemporalHypergraph": ["edge", "time", "weight", "metadata"], "MultiplexHypergraph": ["edge", "layer", "weight", "metadata"]}
    ROLE_KEY = {"edge": "interaction", "weight": "weight", "time": "time", "layer": "layer", "metadata": "metadata"}
    if not (ld.handled & set(T.CONTAINERS)):
        res.unknown("S-LOADARGS", load.short, "type dispatch", "dispatch", "no dispatch on the container type was recognised in the json reader", loc(load, load.node))
        return
    owner = {}
    for f in ld.fis:
        for n in ast.walk(f.node):
            owner[id(n)] = f
    for t in sorted(ld.handled & set(T.CONTAINERS)):
        stmts, helpers = ld.stmts_with_helpers(t)
        first = loc(load, ld.stmts(t)[0]) if ld.stmts(t) else loc(load, load.node)
        if not stmts:
            res.unknown("S-LOADARGS", load.short, f"{t}: H.add_edge(...)", "exists", f"the statements that build a {t} were not located", first)
            continue
        defs: Dict[str, ast.AST] = {}
        for st in stmts:
            for n in ast.walk(st):
                if isinstance(n, ast.Assign) and len(n.targets) == 1 and isinstance(n.targets[0], ast.Name):
                    defs[n.targets[0].id] = n.value
        calls = [n for st in stmts for n in ast.walk(st) if isinstance(n, ast.Call) and isinstance(n.func, ast.Attribute) and n.func.attr == "add_edge"]
        if calls:
            res.ok("S-LOADARGS", load.short, f"{t}: H.add_edge(...)", "exists", first)
        elif helpers or any(isinstance(n, ast.Call) and isinstance(n.func, ast.Attribute) and n.func.attr == "add_edges" for st in stmts for n in ast.walk(st)) or any(isinstance(n, ast.Call) and isinstance(n.func, ast.Attribute) and n.func.attr in ("add_edge", "add_edges") for f_ in ld.fis for n in ast.walk(f_.node)):
            # hyperedges are inserted somewhere in the reader, in code that is not attributed to this type's branch
            res.unknown("S-LOADARGS", load.short, f"{t}: H.add_edge(...)", "exists", f"no add_edge call recognised in the json branch for {t}", first)
        else:
            res.violation("S-LOADARGS", load.short, f"{t}: H.add_edge(...)", "exists", f"the json branch for {t} never inserts the hyperedges", first)
        for c in calls:
            cf = owner.get(id(c), load)
            bound = {}
            for name, a in zip(POS[t], c.args):
                bound[name] = a
            for kw in c.keywords:
                if kw.arg:
                    bound[kw.arg] = kw.value
            opaque = any(kw.arg is None for kw in c.keywords) or any(isinstance(a, ast.Starred) for a in c.args)
            for role, a in bound.items():
                want = ROLE_KEY.get(role)
                if want is None:
                    continue
                expr = defs.get(a.id, a) if isinstance(a, ast.Name) else a
                consts = _str_consts(ctx, cf, expr)
                others = consts & (set(ROLE_KEY.values()) - {want, "metadata"})
                if want in consts:
                    res.ok("S-LOADARGS", load.short, f"{t}: {norm(c)}", role, loc(cf, c))
                elif others:
                    res.violation("S-LOADARGS", load.short, f"{t}: {norm(c)}", role, f"add_edge receives as `{role}` a value read from {sorted(consts)} instead of the record's `{want}`", loc(cf, c))
                else:
                    res.unknown("S-LOADARGS", load.short, f"{t}: {norm(c)}", role, f"the source of `{role}` ({norm(expr)}) was not recognised", loc(cf, c))
            need = set(POS[t]) - {"metadata"}
            missing = need - set(bound)
            if not opaque:
                res.check(not missing, "S-LOADARGS", load.short, f"{t}: {norm(c)}", "complete", f"add_edge is called without {sorted(missing)}", loc(cf, c))
        # the container is constructed with the weightedness recorded in the header (an object without hyperedges has no
        # edge record to infer it from)
        ctors = [n for st in stmts for n in ast.walk(st) if isinstance(n, ast.Call) and isinstance(n.func, ast.Name) and n.func.id == t]
        for c in ctors:
            cf = owner.get(id(c), load)
            wk = next((kw.value for kw in c.keywords if kw.arg == "weighted"), None)
            if wk is None:
                continue
            cv = ctx.view(cf)
            expr = cv.inline(wk)
            if isinstance(expr, ast.Name):
                # several definitions in the function (one per type branch): the one of this branch, else all of them
                cands = [defs[expr.id]] if expr.id in defs else [n.value for n in ast.walk(cf.node) if isinstance(n, ast.Assign) and any(isinstance(t_, ast.Name) and t_.id == expr.id for t_ in n.targets)]
                if len({norm(x) for x in cands}) == 1:
                    expr = cands[0]
            consts = _str_consts(ctx, cf, expr)
            if ("weighted" in consts or "_weighted" in consts) and "weight" not in consts:
                res.ok("S-LOADARGS", load.short, f"{t}: {norm(c)[:100]}", "weighted-from-header", loc(cf, c))
            elif "weight" in consts and ("weighted" in consts or "_weighted" in consts):
                res.violation("S-LOADARGS", load.short, f"{t}: {norm(c)[:100]}", "weighted-from-header", f"the weightedness of the loaded object is not the header's flag alone: `{norm(expr)[:60]}` also looks for a `weight` entry in the edge records, and the writer stores the user's metadata in that very dict - an UNWEIGHTED hypergraph with a metadata key named `weight` reloads as weighted", loc(cf, c))
            elif "weight" in consts or any(isinstance(x, (ast.GeneratorExp, ast.ListComp)) for x in ast.walk(expr)):
                res.violation("S-LOADARGS", load.short, f"{t}: {norm(c)[:100]}", "weighted-from-header", f"the weightedness of the loaded object is inferred from the edge records (`{norm(expr)[:80]}`) instead of read from the header: a weighted hypergraph without hyperedges reloads as unweighted", loc(cf, c))
            else:
                res.unknown("S-LOADARGS", load.short, f"{t}: {norm(c)[:100]}", "weighted-from-header", f"the source of `weighted` ({norm(expr)[:80]}) was not recognised", loc(cf, c))
        nodes = [n for st in stmts for n in ast.walk(st) if isinstance(n, ast.Call) and isinstance(n.func, ast.Attribute) and n.func.attr == "add_node"]
        if nodes:
            res.ok("S-LOADARGS", load.short, f"{t}: H.add_node(...)", "nodes", first)
        elif helpers or any(isinstance(n, ast.Call) and isinstance(n.func, ast.Attribute) and n.func.attr == "add_nodes" for st in stmts for n in ast.walk(st)) or any(isinstance(n, ast.Call) and isinstance(n.func, ast.Attribute) and n.func.attr in ("add_node", "add_nodes") for f_ in ld.fis for n in ast.walk(f_.node)):
            res.unknown("S-LOADARGS", load.short, f"{t}: H.add_node(...)", "nodes", f"no add_node call recognised in the json branch for {t}", first)
        else:
            res.violation("S-LOADARGS", load.short, f"{t}: H.add_node(...)", "nodes", f"the json branch for {t} never restores the nodes (isolated nodes are lost)", first)
        for c in nodes:
            cf = owner.get(id(c), load)
            args = list(c.args) + [kw.value for kw in c.keywords if kw.arg]
            consts = [sorted(_str_consts(ctx, cf, defs.get(a.id, a) if isinstance(a, ast.Name) else a)) for a in args]
            ok = len(consts) >= 2 and "idx" in consts[0] and "metadata" in consts[1]
            bad = len(consts) >= 2 and consts[0] and consts[1] and not ok
            res.add("S-LOADARGS", load.short, f"{t}: {norm(c)}", "node-fields", "ok" if ok else ("violation" if bad else "unknown"), "" if ok else "add_node does not receive (record['idx'], record['metadata'])", loc(cf, c))


def _exposed(ex) -> Tuple[Dict[str, str], Dict[str, ast.AST]]:
    """(attribute -> key, key -> value expression) of the snapshot dict: the returned display, or a local dict filled
    by constant-key stores / update()/dict(**) and returned"""
    written: Dict[str, str] = {}
    values: Dict[str, ast.AST] = {}

    def display(d: ast.Dict):
        for k, v in zip(d.keys, d.values):
            if isinstance(k, ast.Constant):
                values[k.value] = v
                if is_self_attr(v):
                    written[v.attr] = k.value

    rets = [n for n in ast.walk(ex.node) if isinstance(n, ast.Return) and n.value is not None]
    for r in rets:
        if isinstance(r.value, ast.Dict):
            display(r.value)
        elif isinstance(r.value, ast.Name):
            var = r.value.id
            for n in ast.walk(ex.node):
                if isinstance(n, ast.Assign) and len(n.targets) == 1:
                    tg = n.targets[0]
                    if isinstance(tg, ast.Name) and tg.id == var and isinstance(n.value, ast.Dict):
                        display(n.value)
                    if isinstance(tg, ast.Subscript) and isinstance(tg.value, ast.Name) and tg.value.id == var and isinstance(tg.slice, ast.Constant):
                        values[tg.slice.value] = n.value
                        if is_self_attr(n.value):
                            written[n.value.attr] = tg.slice.value
                if isinstance(n, ast.Call) and isinstance(n.func, ast.Attribute) and n.func.attr == "update" and isinstance(n.func.value, ast.Name) and n.func.value.id == var:
                    for a in n.args:
                        if isinstance(a, ast.Dict):
                            display(a)
                    for kw in n.keywords:
                        if kw.arg:
                            values[kw.arg] = kw.value
                            if is_self_attr(kw.value):
                                written[kw.value.attr] = kw.arg
    return written, values


def _restored(po) -> Dict[str, str]:
    """attribute -> key for `self.<attr> = data.get("k", d)` / `data["k"]` / `<local helper>("k", d)` / setattr loops"""
    read: Dict[str, str] = {}
    local_helpers = {n.name for n in ast.walk(po.node) if isinstance(n, (ast.FunctionDef, ast.Lambda)) and n is not po.node and hasattr(n, "name")}
    for n in ast.walk(po.node):
        if isinstance(n, ast.Assign) and len(n.targets) == 1 and is_self_attr(n.targets[0]):
            v = n.value
            key = None
            if isinstance(v, ast.Call) and isinstance(v.func, ast.Attribute) and v.func.attr in ("get", "pop") and v.args and isinstance(v.args[0], ast.Constant):
                key = v.args[0].value
            elif isinstance(v, ast.Call) and isinstance(v.func, ast.Name) and v.func.id in local_helpers and v.args and isinstance(v.args[0], ast.Constant):
                key = v.args[0].value
            elif isinstance(v, ast.Subscript) and isinstance(v.slice, ast.Constant):
                key = v.slice.value
            elif isinstance(v, ast.IfExp):
                ks = {x.slice.value for x in ast.walk(v) if isinstance(x, ast.Subscript) and isinstance(x.slice, ast.Constant) and isinstance(x.slice.value, str)}
                if len(ks) == 1:
                    key = ks.pop()
            if key is not None:
                read[n.targets[0].attr] = key
    return read


def check_pickle(ctx, res: Result):
    for cls in T.CONTAINERS:
        ex = ctx.require(f"{cls}.expose_data_structures")
        po = ctx.require(f"{cls}.populate_from_dict")
        written, values = _exposed(ex)
        read = _restored(po)
        if not written or not read:
            raise AnalysisError(f"{cls}: expose_data_structures / populate_from_dict idiom not recognised")
        # closed world: every statement of the two functions is one of the recognised forms
        ex_open = _has_other_writes(ex)
        po_open = any(isinstance(n, ast.Call) and isinstance(n.func, ast.Name) and n.func.id == "setattr" for n in ast.walk(po.node)) or any(isinstance(n, (ast.For, ast.While)) for n in ast.walk(po.node))
        for attr in PICKLE_ARMED[cls]:
            w, r = written.get(attr), read.get(attr)
            if w is not None:
                res.ok("S-PICKLE", ex.short, f"self.{attr}", "exposed", loc(ex, ex.node))
            else:
                res.add("S-PICKLE", ex.short, f"self.{attr}", "exposed", "unknown" if ex_open else "violation", f"{attr} is not part of the binary snapshot", loc(ex, ex.node))
            if r is not None:
                res.ok("S-PICKLE", po.short, f"self.{attr}", "restored", loc(po, po.node))
            else:
                res.add("S-PICKLE", po.short, f"self.{attr}", "restored", "unknown" if po_open else "violation", f"{attr} is not restored from the binary snapshot", loc(po, po.node))
            if w is not None and r is not None:
                res.check(w == r, "S-PICKLE", po.short, f"self.{attr}", "same-key", f"{attr} is saved under '{w}' but restored from '{r}'", loc(po, po.node))
        # no two attributes share a key
        inv: Dict[str, List[str]] = {}
        for a, k in read.items():
            inv.setdefault(k, []).append(a)
        for k, attrs in inv.items():
            res.check(len(attrs) == 1, "S-PICKLE", po.short, f"data['{k}']", "unique", f"key '{k}' restores several attributes {attrs}", loc(po, po.node))
        tv = values.get("type")
        if tv is None:
            res.add("S-PICKLE", ex.short, '"type"', "type-tag", "unknown" if ex_open else "violation", f"the snapshot of {cls} is tagged nothing", loc(ex, ex.node))
        elif isinstance(tv, ast.Constant):
            res.check(tv.value == cls, "S-PICKLE", ex.short, '"type"', "type-tag", f"the snapshot of {cls} is tagged {norm(tv)}", loc(ex, ex.node))
        else:
            good = norm(tv) in ("type(self).__name__", "self.__class__.__name__")
            res.add("S-PICKLE", ex.short, '"type"', "type-tag", "ok" if good else "unknown", "" if good else f"type tag {norm(tv)} not recognised", loc(ex, ex.node))


def _has_other_writes(ex) -> bool:
    """the snapshot may be filled in ways the recognisers do not read (loops, ** unpacking, helper calls on the dict)"""
    for n in ast.walk(ex.node):
        if isinstance(n, (ast.For, ast.While, ast.DictComp)):
            return True
        if isinstance(n, ast.Dict) and any(k is None for k in n.keys):
            return True
        if isinstance(n, ast.Call) and isinstance(n.func, ast.Name) and n.func.id in ("vars", "dict", "getattr"):
            return True
    return False


def _ret_dict(fi):
    for n in ast.walk(fi.node):
        if isinstance(n, ast.Return) and isinstance(n.value, ast.Dict):
            return n.value.keys, n.value.values
    return [], []


def check_hgr(ctx, res: Result):
    """hMETIS reader: in the weighted branch the weight list and the edge list grow together; edges are tuples of the entries."""
    load = ctx.require("load.load_hypergraph")
    wl = el = None
    ctor = None
    for f in closure(ctx, load):
        for n in ast.walk(f.node):
            if isinstance(n, ast.Call) and isinstance(n.func, ast.Name) and n.func.id == "Hypergraph" and any(k.arg == "edge_list" for k in n.keywords):
                ctor = n
                load = f
    if ctor is None:
        raise AnalysisError("load_hypergraph: hgr constructor call not found")
    kw = {k.arg: k.value for k in ctor.keywords}
    el = kw.get("edge_list")
    wexpr = kw.get("weights")
    wl_name = None
    if wexpr is not None:
        # the list that is grown by the reader (not the flag of the conditional `w if weighted else None`)
        grown = {n.func.value.id for n in ast.walk(load.node) if isinstance(n, ast.Call) and isinstance(n.func, ast.Attribute) and n.func.attr == "append" and isinstance(n.func.value, ast.Name)} | {n.target.id for n in ast.walk(load.node) if isinstance(n, ast.AugAssign) and isinstance(n.target, ast.Name)}
        cands = [wexpr]
        if isinstance(wexpr, ast.Name) and wexpr.id not in grown:
            # `weights` assigned on two branches (`= w_l` / `= None`)
            cands += [d.value for d in ast.walk(load.node) if isinstance(d, ast.Assign) and any(isinstance(t, ast.Name) and t.id == wexpr.id for t in d.targets)]
        wl_name = next((x.id for c in cands for x in ast.walk(c) if isinstance(x, ast.Name) and x.id in grown), None)
    el_name = el.id if isinstance(el, ast.Name) else None
    if wl_name is not None and el_name is not None:
        res.ok("S-HGR", load.short, norm(ctor), "ctor", loc(load, ctor))
    elif wexpr is None or el is None:
        res.violation("S-HGR", load.short, norm(ctor), "ctor", "the hMETIS reader does not hand the edge list and the weight list to the constructor", loc(load, ctor))
    else:
        res.unknown("S-HGR", load.short, norm(ctor), "ctor", "the lists handed to the constructor were not recognised as the ones the reader fills", loc(load, ctor))
    grows = {wl_name: [], el_name: []}
    for n in ast.walk(load.node):
        if isinstance(n, ast.AugAssign) and isinstance(n.target, ast.Name) and n.target.id in grows:
            grows[n.target.id].append(n)
        if isinstance(n, ast.Call) and isinstance(n.func, ast.Attribute) and n.func.attr == "append" and isinstance(n.func.value, ast.Name) and n.func.value.id in grows:
            grows[n.func.value.id].append(n)
    v = ctx.view(load)
    for w in grows.get(wl_name, []):
        # some edge-list growth in the same block
        blk = v.parent.get(id(v.stmt_of(w)))
        same = [e for e in grows.get(el_name, []) if v.parent.get(id(v.stmt_of(e))) is blk]
        if not same:
            # not side by side: still paired when, within the same iteration, every path from the weight goes on to an edge
            # growth (or came from one)
            lp_ = v.enclosing(w, (ast.For, ast.While))
            wid = v.cfg_id(w)
            if lp_ is not None and wid is not None:
                end_ = v.cfg.by_ast.get(id(lp_)) if isinstance(lp_, ast.For) else v.cfg.by_ast.get(id(lp_.test))
                for e in grows.get(el_name, []):
                    eid = v.cfg_id(e)
                    if eid is None or v.enclosing(e, (ast.For, ast.While)) is not lp_:
                        continue
                    if not v.cfg.reaches_without(wid, end_, {eid}) or v.cfg.dominates(eid, wid):
                        same = [e]
            if not same and any(v.enclosing(e, (ast.For, ast.While)) is lp_ for e in grows.get(el_name, [])):
                res.unknown("S-HGR", load.short, norm(w), "paired", "the weight and the hyperedge are recorded on different paths of the same iteration", loc(load, w))
                continue
        res.check(bool(same), "S-HGR", load.short, norm(w), "paired", "a weight is recorded without its hyperedge (weights and hyperedges get out of step)", loc(load, w))
    for e in grows.get(el_name, []):
        blk = v.parent.get(id(v.stmt_of(e)))
        in_weighted = False
        if isinstance(blk, ast.If) and v.stmt_of(e) in blk.body:
            from .rules_container import _atoms

            # the weighted branch: an atom `<mode> % 10 == 1` that holds (not negated) on this arm
            for atom, pol in _atoms(v.inline(blk.test) if isinstance(blk.test, ast.Name) else blk.test, True):
                if isinstance(atom, ast.Compare) and len(atom.ops) == 1 and isinstance(atom.ops[0], (ast.Eq, ast.NotEq)) and any(isinstance(x, ast.Constant) and x.value == 1 for x in ast.walk(atom)) and any(isinstance(x, ast.BinOp) and isinstance(x.op, ast.Mod) for x in ast.walk(atom)):
                    if pol == isinstance(atom.ops[0], ast.Eq):
                        in_weighted = True
        if in_weighted:
            same = [w for w in grows.get(wl_name, []) if v.parent.get(id(v.stmt_of(w))) is blk]
            res.check(bool(same), "S-HGR", load.short, norm(e), "paired", "a weighted hyperedge is recorded without its weight", loc(load, e))
            sl = [x for x in ast.walk(e) if isinstance(x, ast.Subscript) and isinstance(x.slice, ast.Slice)]
            after_weight = any(isinstance(s.slice.lower, ast.Constant) and s.slice.lower.value == 1 and s.slice.upper is None for s in sl)
            # `weight, *members = entries`: the starred name holds the entries after the first
            starred = {t.value.id for a_ in ast.walk(load.node) if isinstance(a_, ast.Assign) and len(a_.targets) == 1 and isinstance(a_.targets[0], (ast.Tuple, ast.List)) and len(a_.targets[0].elts) == 2 and not isinstance(a_.targets[0].elts[0], ast.Starred) for t in a_.targets[0].elts[1:] if isinstance(t, ast.Starred) and isinstance(t.value, ast.Name)}
            if not after_weight and any(isinstance(x, ast.Name) and x.id in starred for x in ast.walk(e)):
                after_weight = True
            whole = any(isinstance(x, ast.Name) and x.id == "entries" for x in ast.walk(e)) and not sl
            res.add("S-HGR", load.short, norm(e), "skip-weight", "ok" if after_weight else ("violation" if whole or sl else "unknown"), "" if after_weight else "the weighted hyperedge is not built from the entries after the weight", loc(load, e))

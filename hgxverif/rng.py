"""Randomness sources (DESIGN 2.F): which random draws an entry point can reach, and where their state comes from."""
from __future__ import annotations

import ast
from dataclasses import dataclass
from typing import Dict, List, Optional, Set

from .model import FunctionInfo, is_self_attr, loc, norm, walk_no_nested
from .report import Result

GLOBAL_MODULES = ("random", "numpy.random")
NOT_DRAWS = {"seed", "default_rng", "RandomState", "Generator", "SeedSequence", "get_state", "set_state", "getstate", "setstate"}
GEN_DRAW_METHODS = {
    "random", "rand", "randn", "randint", "integers", "choice", "shuffle", "permutation", "poisson", "normal", "exponential", "uniform",
    "binomial", "random_sample", "sample", "gamma", "beta", "multinomial", "standard_normal", "bytes", "dirichlet",
}


@dataclass
class Draw:
    fi: FunctionInfo
    node: ast.Call
    source: str  # "global:random" | "global:numpy.random" | "gen:<receiver text>"
    name: str

    def where(self):
        return loc(self.fi, self.node)


def extern_name(prog, fi: FunctionInfo, call: ast.Call) -> Optional[str]:
    f = call.func
    if isinstance(f, ast.Attribute):
        r = prog.resolve_attr_chain(fi.module, f)
        if isinstance(r, tuple) and r[0] in ("external", "module"):
            return r[1]
    if isinstance(f, ast.Name):
        r = prog.resolve_name(fi.module, f.id)
        if isinstance(r, tuple) and r[0] in ("external", "module"):
            return r[1]
    return None


def local_aliases(fi: FunctionInfo) -> Dict[str, str]:
    """rand = np.random.rand style aliases: local name -> dotted extern"""
    out = {}
    for n in walk_no_nested(fi.node):
        if isinstance(n, ast.Assign) and len(n.targets) == 1 and isinstance(n.targets[0], ast.Name) and isinstance(n.value, ast.Attribute):
            out[n.targets[0].id] = n.value
    return out


def draws_in(ctx, fi: FunctionInfo, rng_exprs=("self._rng", "self.prng", "rng", "prng", "self.rng")) -> List[Draw]:
    out = []
    aliases = local_aliases(fi)
    for n in ast.walk(fi.node):
        if not isinstance(n, ast.Call):
            continue
        dotted = extern_name(ctx.prog, fi, n)
        if dotted is None and isinstance(n.func, ast.Name) and n.func.id in aliases:
            r = ctx.prog.resolve_attr_chain(fi.module, aliases[n.func.id])
            if isinstance(r, tuple):
                dotted = r[1]
        if dotted is not None:
            for gm in GLOBAL_MODULES:
                if dotted.startswith(gm + "."):
                    name = dotted[len(gm) + 1 :]
                    if name.split(".")[0] not in NOT_DRAWS and "." not in name:
                        out.append(Draw(fi, n, "global:" + gm, name))
            continue
        if isinstance(n.func, ast.Attribute) and n.func.attr in GEN_DRAW_METHODS:
            rv = n.func.value
            if isinstance(rv, ast.Name):
                try:
                    rv = ctx.view(fi).inline(rv, depth=2)  # gen = self._rng; gen.random()
                except Exception:
                    rv = n.func.value
            recv = norm(rv)
            if recv in rng_exprs or recv.endswith("_rng") or recv.endswith("prng"):
                out.append(Draw(fi, n, "gen:" + recv, n.func.attr))
    return out


def closure(ctx, fi: FunctionInfo, depth=6) -> List[FunctionInfo]:
    """functions reachable from fi through resolved repo calls (plus nested defs)"""
    seen = {fi.qualname: fi}
    todo = [(fi, 0)]
    by_caller: Dict[str, List[FunctionInfo]] = {}
    for cf in ctx.interp.callfacts:
        by_caller.setdefault(cf.caller.qualname, []).append(cf.callee)
    while todo:
        cur, d = todo.pop()
        nxt = list(by_caller.get(cur.qualname, [])) + list(cur.nested.values())
        for c in nxt:
            if c.qualname not in seen and d < depth:
                seen[c.qualname] = c
                todo.append((c, d + 1))
    return list(seen.values())


def check_global_seeded(ctx, res: Result, dotted: str, seed_param="seed", rule="R-GLOBAL"):
    """Every draw reachable from the entry comes from the module that is seeded with the entry's seed; the seeding
    is only skipped when seed is None and it precedes every draw of the entry itself."""
    fi = ctx.require(dotted)
    v = ctx.view(fi)
    f = fi.short
    seeds = []
    for n in walk_no_nested(fi.node):
        if isinstance(n, ast.Call):
            d = extern_name(ctx.prog, fi, n)
            if d in ("random.seed", "numpy.random.seed") and n.args and norm(n.args[0]) == seed_param:
                seeds.append((n, d.rsplit(".", 1)[0]))
    forwards = []  # calls that hand the seed on to another repo function
    for cf in ctx.interp.callfacts:
        if cf.caller.qualname == fi.qualname and seed_param in [a.arg for a in cf.callee.params]:
            forwards.append(cf)
    own = draws_in(ctx, fi)
    if not seeds and not forwards:
        # handed to something that was not resolved (a seeder object out of a table, a callable parameter): not decided
        handed = [n for n in walk_no_nested(fi.node) if isinstance(n, ast.Call) and any(isinstance(x, ast.Name) and x.id == seed_param for a_ in list(n.args) + [k.value for k in n.keywords] for x in ast.walk(a_))]
        if handed:
            res.unknown(rule, f, norm(handed[0])[:100], "seeding", f"`{seed_param}` is handed to a callable that was not resolved to a seeding call", loc(fi, handed[0]))
            return
        res.violation(rule, f, f"random.seed({seed_param})", "seeding", f"the `{seed_param}` parameter never reaches a random generator: equal seeds give different results", loc(fi, fi.node))
        return
    seeded_mods = {m for _, m in seeds}
    for n, m in seeds:
        ifs = v.enclosing_all(n, (ast.If,))
        ok = all(norm(i.test) in (f"{seed_param} is not None", f"not {seed_param} is None") for i in ifs)
        res.check(ok, rule, f, norm(n), "guard", f"seeding is skipped for some non-None seed (guard `{norm(ifs[0].test) if ifs else ''}`)", loc(fi, n))
    for d in own:
        if d.source.startswith("global:"):
            m = d.source.split(":", 1)[1]
            res.check(m in seeded_mods, rule, f, norm(d.node), d.source, f"draw from `{m}`, but only {sorted(seeded_mods) or 'nothing'} is seeded with `{seed_param}`: the result is not reproducible", d.where())
            for n, sm in seeds:
                if sm == m:
                    anchor = v.enclosing_all(n, (ast.If,))
                    a_id = v.cfg.by_ast[id(anchor[-1].test)] if anchor else v.cfg_id(n)
                    res.check(v.cfg.dominates(a_id, v.cfg_id(d.node)), rule, f, norm(d.node), "after-seeding", "a draw can happen before the generator is seeded", d.where())
    for cf in forwards:
        b = cf.bound.get(seed_param)
        arg = None
        for kw in cf.node.keywords:
            if kw.arg == seed_param:
                arg = kw.value
        if arg is None:
            names = [a.arg for a in cf.callee.params]
            idx = names.index(seed_param) - (1 if cf.callee.cls is not None and not cf.callee.is_static and cf.callee.parent is None else 0)
            if 0 <= idx < len(cf.node.args):
                arg = cf.node.args[idx]
        res.check(arg is not None and norm(arg) == seed_param, rule, f, norm(cf.node), f"forward:{cf.callee.short}", f"`{seed_param}` is not handed on to {cf.callee.short}", loc(fi, cf.node))
    # draws in callees that do NOT receive the seed must come from the seeded module as well
    for g in closure(ctx, fi):
        if g.qualname == fi.qualname or seed_param in [a.arg for a in g.params]:
            continue
        for d in draws_in(ctx, g):
            if d.source.startswith("global:") and seeded_mods:
                m = d.source.split(":", 1)[1]
                res.check(m in seeded_mods, rule, f, norm(d.node), f"callee:{g.short}", f"reachable draw from `{m}` in {g.short}, which is not the module seeded by {f}", d.where())


def check_none_default_compare(ctx, res: Result, dotted: str, rule="N-NONECMP"):
    """Engler-style contradiction: a parameter whose default is None is used in an ordering comparison on a path
    that has not tested it for None."""
    fi = ctx.require(dotted)
    v = ctx.view(fi)
    f = fi.short
    nones = [p for p, d in fi.defaults().items() if isinstance(d, ast.Constant) and d.value is None]
    for p in nones:
        cmps = []
        for n in walk_no_nested(fi.node):
            if isinstance(n, ast.Compare) and any(isinstance(o, (ast.Lt, ast.LtE, ast.Gt, ast.GtE)) for o in n.ops):
                operands = [n.left] + list(n.comparators)
                if any(isinstance(x, ast.Name) and x.id == p for x in operands):
                    cmps.append(n)
        for c in cmps:
            ok = _none_tested_before(v, c, p)
            res.check(ok, rule, f, norm(c), p, f"`{p}` defaults to None and is compared with an ordering operator without a preceding `{p} is not None` test: the documented default raises TypeError", loc(fi, c))
        if not cmps:
            res.ok(rule, f, f"no ordering comparison of `{p}`", p, loc(fi, fi.node))


def _none_atom_labels(test, p):
    """[(atom, label)]: out-edges of `test` on which `p` is known not to be None"""
    from .rules_container import _atoms, _implied_branch

    out = []
    for atom, _ in _atoms(test, True):
        if isinstance(atom, ast.Compare) and len(atom.ops) == 1 and isinstance(atom.left, ast.Name) and atom.left.id == p and isinstance(atom.comparators[0], ast.Constant) and atom.comparators[0].value is None and isinstance(atom.ops[0], (ast.Is, ast.IsNot)):
            want_true = isinstance(atom.ops[0], ast.IsNot)
            lab = _implied_branch(test, atom, want_true)
            if lab:
                out.append((atom, lab))
    return out


def _none_tested_before(v, cmp_node, p) -> bool:
    cid = v.cfg_id(cmp_node)
    # (a) short-circuit inside one boolean expression: `p is not None and p < 0`, `not (p is None) and ...`,
    #     `p is None or p < 0`
    child = cmp_node
    par = v.parent.get(id(child))
    while par is not None and isinstance(par, ast.expr) and not isinstance(par, (ast.Lambda, ast.ListComp, ast.SetComp, ast.DictComp, ast.GeneratorExp)):
        # (through any enclosing expression: a conditional expression, a walrus, a call argument ...)
        if isinstance(par, ast.IfExp) and child is not par.test:
            # an arm of `x if <test> else y` is evaluated only on one outcome of the test
            need = "T" if child is par.body else "F"
            if any(lab == need for _, lab in _none_atom_labels(par.test, p)):
                return True
        if isinstance(par, ast.BoolOp):
            idx = [i for i, x in enumerate(par.values) if x is child]
            for x in par.values[: idx[0] if idx else 0]:
                # the later operand is evaluated only when x was True (and) / False (or)
                need = "T" if isinstance(par.op, ast.And) else "F"
                if any(lab == need for _, lab in _none_atom_labels(x, p)):
                    return True
        child = par
        par = v.parent.get(id(par))
    # (b) dominated by a branch on which p is known not None
    for n in walk_no_nested(v.fi.node):
        if isinstance(n, (ast.If, ast.While)):
            tid = v.cfg.by_ast.get(id(n.test))
            if tid is None or tid == cid:
                continue
            for _, lab in _none_atom_labels(n.test, p):
                if v.cfg.branch_dominated(tid, lab, cid):
                    return True
    return False

"""Run the checker on in-memory variants of the repository (see mutants.py)."""
from __future__ import annotations

import importlib
import os
import time
from concurrent.futures import ProcessPoolExecutor
from typing import Dict, List, Optional

from .model import AnalysisError
from .mutants import Mutant, for_property
from .report import load_known, match_known


def run_variant(prop: str, repo: str, m: Mutant) -> dict:
    """Analyse the variant; returns {'applied': bool, 'violations': [(rule, func, stmt)], 'error': str|None}"""
    from .ctx import Ctx

    path = os.path.join(repo, m.file)
    try:
        with open(path, encoding="utf-8") as f:
            src = f.read()
    except OSError as e:
        return {"id": m.id, "applied": False, "violations": [], "error": str(e)}
    new = m.apply(src)
    if new is None:
        return {"id": m.id, "applied": False, "violations": [], "error": None}
    try:
        ctx = Ctx(repo, "quick", overrides={m.file: new})
        mod = importlib.import_module(f"hgxverif.props.{prop.lower()}")
        res = mod.run(ctx)
        res.dedupe()
        known = load_known()
        viol = [(o.rule, o.func, o.stmt[:120]) for o in res.obs if o.status == "violation" and match_known(prop, o, known) is None]
        return {"id": m.id, "applied": True, "violations": viol, "error": None}
    except AnalysisError as e:
        return {"id": m.id, "applied": True, "violations": [], "error": f"ANALYSIS-ERROR {e}"}
    except Exception as e:  # pragma: no cover
        return {"id": m.id, "applied": True, "violations": [], "error": f"{type(e).__name__}: {e}"}


def judge(m: Mutant, r: dict) -> str:
    if not r["applied"]:
        return "skipped"
    if m.kind == "break":
        if r["error"]:
            return "error"
        rules = {v[0] for v in r["violations"]}
        if m.rule in rules:
            return "fired"
        return "fired-other" if rules else "missed"
    # benign
    if r["error"]:
        return "false-error"
    return "silent" if not r["violations"] else "false-alarm"


def positive_control(prop: str, repo: str) -> dict:
    """Quick tier: the first applicable breaking variant of the property must make its rule fire."""
    last = None
    tried = 0
    for m in for_property(prop):
        if m.kind != "break":
            continue
        r = run_variant(prop, repo, m)
        v = judge(m, r)
        if v == "skipped":
            continue
        tried += 1
        last = {"name": m.id, "rule": m.rule, "matched": v == "fired", "verdict": v, "file": m.file, "violations": r["violations"][:3], "tried": tried}
        if v == "fired" or tried >= 4:
            return last
    return last or {"name": f"{prop}: no applicable control variant", "rule": None, "matched": False, "verdict": "none"}


def _job(args):
    prop, repo, m = args
    t = time.time()
    r = run_variant(prop, repo, m)
    r["verdict"] = judge(m, r)
    r["wall_s"] = round(time.time() - t, 2)
    r["kind"] = m.kind
    r["rule"] = m.rule
    return r


def matrix(prop: str, repo: str, jobs: int = 16) -> dict:
    ms = for_property(prop)
    with ProcessPoolExecutor(max_workers=min(jobs, max(1, len(ms)))) as ex:
        results = list(ex.map(_job, [(prop, repo, m) for m in ms]))
    counts: Dict[str, int] = {}
    for r in results:
        counts[r["verdict"]] = counts.get(r["verdict"], 0) + 1
    broken = [f"{r['id']}: {r['verdict']}" + (f" ({r['error']})" if r.get("error") else "") for r in results if r["verdict"] in ("missed", "error", "false-alarm", "false-error")]
    return {
        "summary": f"{len(results)} variants: " + ", ".join(f"{k}={v}" for k, v in sorted(counts.items())),
        "counts": counts,
        "variants": [{k: r[k] for k in ("id", "kind", "rule", "verdict", "wall_s")} | {"violations": r["violations"][:2]} for r in results],
        "broken": broken,
    }


# ------------------------------------------------------------------------------------------------ filed corpus
VERIF_DIR = os.path.dirname(os.path.dirname(os.path.abspath(__file__)))


def _corpus_job(args):
    prop, repo, kind, name, diff_path = args
    from .ctx import Ctx
    from .patchmem import PatchError, apply_patch

    t = time.time()
    out = {"id": name, "kind": kind, "violations": [], "error": None}
    try:
        with open(diff_path, encoding="utf-8") as f:
            ov = apply_patch(repo, f.read())
    except (PatchError, OSError) as e:
        out.update(verdict="skipped", error=str(e), wall_s=round(time.time() - t, 2))
        return out
    try:
        ctx = Ctx(repo, "quick", overrides=ov)
        mod = importlib.import_module(f"hgxverif.props.{prop.lower()}")
        res = mod.run(ctx)
        res.dedupe()
        known = load_known()
        out["violations"] = [(o.rule, o.func, o.stmt[:120]) for o in res.obs if o.status == "violation" and match_known(prop, o, known) is None]
    except AnalysisError as e:
        out["error"] = f"ANALYSIS-ERROR {e}"
    except Exception as e:  # pragma: no cover
        out["error"] = f"{type(e).__name__}: {e}"
    if kind == "seeded":
        out["verdict"] = "error" if out["error"] else ("detected" if out["violations"] else "missed")
    else:
        out["verdict"] = "false-error" if out["error"] else ("silent" if not out["violations"] else "false-alarm")
    out["wall_s"] = round(time.time() - t, 2)
    return out


def corpus(prop: str, repo: str, jobs: int = 16) -> dict:
    """The property's rules on every filed seeded change (must report a violation, unless listed as an accepted miss)
    and every filed behaviour-preserving refactoring (must stay silent), applied to the current sources in memory."""
    import json

    items = []
    for kind, sub in (("seeded", "seeded"), ("refactor", "refactors")):
        base = os.path.join(VERIF_DIR, sub)
        if not os.path.isdir(base):
            continue
        for name in sorted(os.listdir(base)):
            meta = os.path.join(base, name, "meta.json")
            diff = os.path.join(base, name, "patch.diff")
            if not (os.path.exists(meta) and os.path.exists(diff)):
                continue
            try:
                with open(meta) as f:
                    if json.load(f).get("property") != prop:
                        continue
            except ValueError:
                continue
            items.append((prop, repo, kind, name, diff))
    accepted = {}
    ap = os.path.join(VERIF_DIR, "seeded", "accepted_misses.json")
    if os.path.exists(ap):
        with open(ap) as f:
            accepted = json.load(f)
    if not items:
        return {"summary": "no filed changes for this property", "counts": {}, "variants": [], "broken": []}
    with ProcessPoolExecutor(max_workers=min(jobs, len(items))) as ex:
        results = list(ex.map(_corpus_job, items))
    counts: Dict[str, int] = {}
    broken = []
    for r in results:
        v = r["verdict"]
        if v == "missed" and r["id"] in accepted:
            v = r["verdict"] = "missed-accepted"
        counts[v] = counts.get(v, 0) + 1
        if v in ("missed", "error", "false-alarm", "false-error"):
            broken.append(f"{r['id']}: {v}" + (f" ({r['error']})" if r.get("error") else ""))
    return {
        "summary": f"{len(results)} filed changes: " + ", ".join(f"{k}={v}" for k, v in sorted(counts.items())),
        "counts": counts,
        "variants": [{k: r[k] for k in ("id", "kind", "verdict", "wall_s")} | {"violations": r["violations"][:2]} for r in results],
        "broken": broken,
    }


# ------------------------------------------------------------------------------ positive controls of the general lint pack
_PROBE_REL = "hypergraphx/_verif_lint_probe.py"
_PROBE_SRC = '''
import numpy as np
from collections import Counter
from itertools import groupby
from hypergraphx import Hypergraph, TemporalHypergraph


def stale(pairs, s):
    out = []
    seen = set()
    for a, b in pairs:
        if (a, b) not in seen:
            seen.add((a, b))
            w = len(set(a) & set(b))
        if w >= s:
            out.append((a, b))
    return out


def carried(xs):
    out = []
    for i, x in enumerate(xs):
        if i > 0:
            out.append(x - prev)
        prev = x
    return out


def reuse(sizes, edges):
    wanted = (s + 1 for s in sizes)
    kept = []
    for s in wanted:
        kept.append(s)
    return [e for e in edges if len(e) not in wanted]


def reuse_exclusive(ids, table, order):
    edges = (table[i] for i in ids)
    return list(edges) if order is None else [e for e in edges if len(e) - 1 == order]


def fancy(W, edges):
    rows, cols = edges[:, 0].ravel(), edges[:, 1].ravel()
    W[rows, cols] += 1
    return W


def grouped(table):
    res = {}
    records = list(table.items())
    for t, grp in groupby(records, key=lambda r: r[0]):
        res[t] = list(grp)
    return res


def runs(xs):
    return sum(1 for _ in groupby(xs))


def shared(nodes):
    return dict.fromkeys(nodes, {})


def liveiter(adj, node):
    for e in adj[node]:
        if e % 2:
            adj[node].remove(e)
    return adj


def liveiter_break(adj, node, target):
    for e in adj[node]:
        if e == target:
            adj[node].remove(e)
            break
    return adj


def default_arg(x, acc=[]):
    acc.append(x)
    return acc


def default_arg_ok(x, acc=None):
    acc = [] if acc is None else acc
    acc.append(x)
    return acc


def keyproj(th: TemporalHypergraph):
    buckets = {}
    for time, edge in th.get_edges():
        buckets[edge] = th.get_weight(edge, time)
    return buckets


def keyproj_ok(th: TemporalHypergraph):
    buckets = {}
    for time, edge in th.get_edges():
        buckets[(time, edge)] = th.get_weight(edge, time)
    return buckets


def owner(hg, edges):
    h = Hypergraph(weighted=True)
    for e in edges:
        h.add_edge(e, hg._weights[h._edge_list[e]])
    return h


def owner_ok(hg, edges):
    h = Hypergraph(weighted=True)
    for e in edges:
        h.add_edge(e, hg._weights[hg._edge_list[e]])
    return h


def counter_add(maps):
    res = Counter()
    for m in maps:
        res += Counter({k: v for k, v in m.items()})
    return dict(res)


def counter_update(maps):
    res = Counter()
    for m in maps:
        res.update(m)
    return dict(res)


def loop_shared(edges):
    reach = {}
    for src, tgt in edges:
        targets = set(tgt)
        for n in src:
            reach.setdefault(n, targets).update(targets)
    return reach


def loop_shared_ok(edges):
    reach = {}
    for src, tgt in edges:
        targets = set(tgt)
        for n in src:
            reach.setdefault(n, set()).update(targets)
    return reach


class Buckets:
    def __init__(self):
        self._count = {}
        self._pruned = {}

    def add(self, k):
        self._count[k] = self._count.get(k, 0) + 1
        self._pruned[k] = self._pruned.get(k, 0) + 1

    def drop(self, k):
        self._count[k] -= 1
        self._pruned[k] -= 1
        if not self._pruned[k]:
            del self._pruned[k]

    def kinds(self):
        return len(self._count)

    def kinds_ok(self):
        return len(self._pruned)


_lists = {}


def len_valid(hg):
    nodes = _lists.get(hg)
    if nodes is None or len(nodes) != len(hg.get_adj_dict()):
        nodes = list(hg.get_nodes())
        _lists[hg] = nodes
    return nodes


def len_valid_ok(hg, version):
    entry = _lists.get(hg)
    if entry is None or entry[0] != version:
        entry = (version, list(hg.get_nodes()))
        _lists[hg] = entry
    return entry[1]


def shape_guess(inc, N):
    if inc.shape[1] == N:
        inc = inc.T
    return inc


def shape_guess_ok(inc, N):
    if inc.shape[0] != N and inc.shape[1] == N:
        inc = inc.T
    return inc


def label_type(h: Hypergraph):
    out = []
    for edge in h.get_edges():
        if len(edge) == 2 and isinstance(edge[0], tuple):
            out.append(edge[0] + edge[1])
        else:
            out.append(edge)
    return out


def label_type_ok(h: Hypergraph):
    return [edge for edge in h.get_edges() if isinstance(edge, tuple)]


def zip_align(snapshots):
    out = {}
    for t, snap in zip(sorted(snapshots.keys()), snapshots.values()):
        out[t] = snap
    return out


def zip_align_ok(snapshots):
    out = {}
    for t, snap in zip(snapshots.keys(), snapshots.values()):
        out[t] = snap
    return out


def truthy_index(scores):
    best = None
    top = float("-inf")
    for r in range(len(scores)):
        if not best or scores[r] > top:
            best = r
            top = scores[r]
    return best


def trap_is_literal(order):
    return [] if order is 0 else [order]


def trap_is_none_ok(order):
    return [] if order is None else [order]


def trap_none_result(edges):
    ordered = list(edges)
    ordered = ordered.sort()
    return ordered


def trap_none_result_ok(edges):
    ordered = list(edges)
    ordered.sort()
    return ordered


def trap_late_bind(sizes):
    tests = []
    for s in sizes:
        tests.append(lambda e: len(e) == s)
    return tests


def trap_late_bind_ok(sizes, edges):
    kept = []
    for s in sizes:
        kept.extend(filter(lambda e: len(e) == s, edges))
    return kept


def lossy_merged(edges):
    seen = {}
    for edge in edges:
        seen[frozenset(edge[0] + edge[1])] = edge
    return list(seen.values())


def lossy_merged_ok(edges):
    seen = {}
    for edge in edges:
        seen[(frozenset(edge[0]), frozenset(edge[1]))] = edge
    return list(seen.values())


def lossy_multiset(tuples):
    cache = {}
    for t in tuples:
        cache.setdefault((t[0], frozenset(t[1:])), t)
    return cache


class Tri:
    def __init__(self):
        self.matching = None

    def lower(self):
        self.matching = False

    def finish(self):
        if not self.matching:
            self.matching = True

    def finish_ok(self):
        if self.matching is None:
            self.matching = True


def trace_mul(w, gram):
    return np.trace(w * gram)


def trace_matmul_ok(w, gram):
    return np.trace(w @ gram)


def truthy_index_ok(scores):
    best = None
    top = float("-inf")
    for r in range(len(scores)):
        if best is None or scores[r] > top:
            best = r
            top = scores[r]
    return best


def reused_record(items, sink):
    record = {"meta": {}}
    for item in items:
        record["meta"].update(item)
        sink(record)


def reused_record_ok(items, sink):
    record = {"meta": {}}
    for item in items:
        record["meta"] = {}
        record["meta"].update(item)
        sink(record)


def loop_leak(edges, weight):
    total = 0
    for e in edges:
        w = weight(e)
    total += w
    return total


def loop_leak_ok(edges, weight):
    total = 0
    w = 0
    for e in edges:
        w = weight(e)
        total += w
    total += len(edges)
    return total


def acc_reset(groups):
    for g in groups:
        found = []
        for x in g:
            found.append(x)
    return found


def acc_reset_ok(groups):
    out = {}
    for k, g in groups.items():
        found = []
        for x in g:
            found.append(x)
        out[k] = found
    return out


def _absorb(fixed_u, fixed_w):
    return (fixed_u, fixed_w)


def arg_swap(fixed_u, fixed_w):
    return _absorb(fixed_w, fixed_u)


def arg_swap_ok(fixed_u, fixed_w):
    return _absorb(fixed_u, fixed_w)


def sort_pair():
    from hypergraphx import DirectedHypergraph

    h = DirectedHypergraph()
    out = []
    for e in h.get_edges():
        out.append(tuple(sorted(e)))
    return out


def sort_pair_ok():
    from hypergraphx import DirectedHypergraph

    h = DirectedHypergraph()
    out = []
    for e in h.get_edges():
        out.append((tuple(sorted(e[0])), tuple(sorted(e[1]))))
    return out


def role_mem():
    from hypergraphx import DirectedHypergraph

    h = DirectedHypergraph()
    handled = {e[0] for e in h.get_edges()}
    return [e for e in h.get_edges() if e[1] in handled]


def role_mem_ok():
    from hypergraphx import DirectedHypergraph

    h = DirectedHypergraph()
    handled = {e[0] for e in h.get_edges()}
    return [e for e in h.get_edges() if e[0] in handled]


def or_flag(keep_isolated_nodes=True, keep_nodes=None):
    keep_isolated_nodes = keep_isolated_nodes or keep_nodes
    return keep_isolated_nodes


def or_flag_ok(keep_isolated_nodes=True, keep_nodes=None):
    if keep_nodes is not None:
        keep_isolated_nodes = keep_nodes
    return keep_isolated_nodes


def or_get(record, name):
    metadata = record.get("metadata") or {}
    return metadata.get(name) or record.get(name)


def or_get_ok(record, name):
    metadata = record.get("metadata") or {}
    return metadata[name] if name in metadata else record.get(name)


def hashable_dispatch(values):
    from collections.abc import Hashable

    return [values] if isinstance(values, Hashable) else list(values)


def hashable_dispatch_ok(values):
    return [values] if isinstance(values, str) else list(values)


def pair_len():
    from hypergraphx import DirectedHypergraph

    h = DirectedHypergraph()
    return sorted(h.get_edges(), key=len)


def pair_len_ok():
    from hypergraphx import DirectedHypergraph

    h = DirectedHypergraph()
    return sorted(h.get_edges(), key=lambda e: len(e[0]) + len(e[1]))


def empty_none(d=None):
    if d is None or len(d) == 0:
        d = [2, 3]
    return d


def empty_none_ok(d=None):
    if d is None:
        d = [2, 3]
    return d


def setdefault_shared(edges):
    reach = {}
    for sources, targets in edges:
        reached = set(targets)
        for node in sources:
            reach.setdefault(node, reached).update(reached)
    return reach


def setdefault_shared_ok(edges):
    reach = {}
    for sources, targets in edges:
        for node in sources:
            reach.setdefault(node, set()).update(targets)
    return reach


def consec_pairs(items, link):
    for a, b in zip(items, items[1:]):
        link(a, b)


def consec_pairs_ok(items, link):
    from itertools import combinations

    for a, b in combinations(items, 2):
        link(a, b)
'''

_PROBE_EXPECT = {
    # function -> (rule, must fire?)
    "stale": ("G-STALE", True),
    "carried": ("G-STALE", False),
    "reuse": ("G-REUSE", True),
    "reuse_exclusive": ("G-REUSE", False),
    "fancy": ("N-FANCYAUG", True),
    "grouped": ("G-GROUPBY", True),
    "runs": ("G-GROUPBY", False),
    "shared": ("E-SHARED", True),
    "liveiter": ("G-LIVEITER", True),
    "liveiter_break": ("G-LIVEITER", False),
    "default_arg": ("E-DEFAULTARG", True),
    "default_arg_ok": ("E-DEFAULTARG", False),
    "keyproj": ("G-KEYPROJ", True),
    "keyproj_ok": ("G-KEYPROJ", False),
    "owner": ("K-OWNER", True),
    "owner_ok": ("K-OWNER", False),
    "counter_add": ("G-COUNTERADD", True),
    "counter_update": ("G-COUNTERADD", False),
    "loop_shared": ("E-SHARED", True),
    "loop_shared_ok": ("E-SHARED", False),
    "Buckets.kinds": ("G-ZEROBUCKET", True),
    "Buckets.kinds_ok": ("G-ZEROBUCKET", False),
    "len_valid": ("G-LENVALID", True),
    "len_valid_ok": ("G-LENVALID", False),
    "shape_guess": ("G-SHAPEGUESS", True),
    "shape_guess_ok": ("G-SHAPEGUESS", False),
    "label_type": ("K-LABELTYPE", True),
    "label_type_ok": ("K-LABELTYPE", False),
    "zip_align": ("G-ZIPALIGN", True),
    "zip_align_ok": ("G-ZIPALIGN", False),
    "truthy_index": ("G-TRUTHY0", True),
    "truthy_index_ok": ("G-TRUTHY0", False),
    "trap_is_literal": ("G-PYTRAP", True),
    "trap_is_none_ok": ("G-PYTRAP", False),
    "trap_none_result": ("G-PYTRAP", True),
    "trap_none_result_ok": ("G-PYTRAP", False),
    "trap_late_bind": ("G-PYTRAP", True),
    "trap_late_bind_ok": ("G-PYTRAP", False),
    "lossy_merged": ("G-LOSSYKEY", True),
    "lossy_merged_ok": ("G-LOSSYKEY", False),
    "lossy_multiset": ("G-LOSSYKEY", True),
    "Tri.finish": ("G-TRISTATE", True),
    "Tri.finish_ok": ("G-TRISTATE", False),
    "trace_mul": ("N-TRACEMUL", True),
    "trace_matmul_ok": ("N-TRACEMUL", False),
    "reused_record": ("G-REUSEDREC", True),
    "reused_record_ok": ("G-REUSEDREC", False),
    "loop_leak": ("G-LOOPLEAK", True),
    "loop_leak_ok": ("G-LOOPLEAK", False),
    "acc_reset": ("G-ACCRESET", True),
    "acc_reset_ok": ("G-ACCRESET", False),
    "arg_swap": ("G-ARGSWAP", True),
    "arg_swap_ok": ("G-ARGSWAP", False),
    "sort_pair": ("K-SORTPAIR", True),
    "sort_pair_ok": ("K-SORTPAIR", False),
    "role_mem": ("K-ROLEMEM", True),
    "role_mem_ok": ("K-ROLEMEM", False),
    "or_flag": ("G-ORFLAG", True),
    "or_flag_ok": ("G-ORFLAG", False),
    "or_get": ("G-ORGET", True),
    "or_get_ok": ("G-ORGET", False),
    "hashable_dispatch": ("G-HASHABLE", True),
    "hashable_dispatch_ok": ("G-HASHABLE", False),
    "pair_len": ("K-PAIRLEN", True),
    "pair_len_ok": ("K-PAIRLEN", False),
    "empty_none": ("G-EMPTYNONE", True),
    "empty_none_ok": ("G-EMPTYNONE", False),
    "setdefault_shared": ("E-SETDEFAULT", True),
    "setdefault_shared_ok": ("E-SETDEFAULT", False),
    "consec_pairs": ("G-CONSECPAIR", True),
    "consec_pairs_ok": ("G-CONSECPAIR", False),
}


def lint_pack_controls(repo: str) -> dict:
    """Every lint of the general pack fires on its tiny positive example and stays silent on the benign twin (the pack's
    expected count on the repository is zero, so this is what shows it can match at all)."""
    from . import lints as L
    from .ctx import Ctx
    from .effects import check_shared_literals
    from .report import Result

    fns = {"G-STALE": L.check_stale_in_loop, "G-REUSE": L.check_iterator_reuse, "N-FANCYAUG": L.check_fancy_augassign, "G-GROUPBY": L.check_groupby_sorted, "E-SHARED": check_shared_literals, "G-LIVEITER": L.check_mutation_while_iterating, "E-DEFAULTARG": L.check_mutable_defaults, "G-KEYPROJ": L.check_key_projection, "K-OWNER": L.check_id_owner, "G-COUNTERADD": L.check_counter_arith, "G-ZEROBUCKET": L.check_zero_buckets, "G-LENVALID": L.check_len_validated_cache, "G-SHAPEGUESS": L.check_layout_guess, "K-LABELTYPE": L.check_label_type_dispatch, "G-ZIPALIGN": L.check_zip_alignment, "G-TRUTHY0": L.check_truthy_index, "G-PYTRAP": L.check_python_traps, "G-LOSSYKEY": L.check_lossy_keys, "G-TRISTATE": L.check_tristate_flag, "N-TRACEMUL": L.check_trace_of_elementwise, "G-REUSEDREC": L.check_reused_record, "G-LOOPLEAK": L.check_loop_leak, "G-ACCRESET": L.check_accumulator_reset, "G-ARGSWAP": L.check_swapped_arguments, "K-SORTPAIR": L.check_sorted_pair, "K-ROLEMEM": L.check_role_membership, "G-ORFLAG": L.check_or_merged_flag, "G-ORGET": L.check_falsy_fallback, "G-HASHABLE": L.check_hashable_dispatch, "K-PAIRLEN": L.check_len_of_pair, "G-EMPTYNONE": L.check_empty_as_missing, "E-SETDEFAULT": L.check_setdefault_shared, "G-CONSECPAIR": L.check_consecutive_pairs}
    ctx = Ctx(repo, "quick", overrides={_PROBE_REL: _PROBE_SRC})
    out = {"controls": [], "broken": []}
    for name, (rule, must) in _PROBE_EXPECT.items():
        fi = ctx.prog.func(name if "." in name else f"_verif_lint_probe.{name}")
        tmp = Result("LINT")
        try:
            fns[rule](ctx, tmp, fi)
            fired = any(o.status == "violation" and o.rule == rule for o in tmp.obs)
            err = None
        except Exception as e:  # pragma: no cover
            fired, err = False, f"{type(e).__name__}: {e}"
        ok = (fired == must) and err is None
        out["controls"].append({"function": name, "rule": rule, "expected": "fires" if must else "silent", "fired": fired, "ok": ok, "error": err})
        if not ok:
            out["broken"].append(f"lint control {name}: {rule} expected {'to fire' if must else 'to stay silent'}, fired={fired}" + (f" ({err})" if err else ""))
    out["summary"] = f"{sum(1 for c in out['controls'] if c['ok'])}/{len(out['controls'])} lint-pack controls as expected"
    return out

"""Mechanical behaviour-preserving rewrites of the whole analysed tree (in memory), used to test that no check raises an
alarm on code in which the property still holds: every transform below preserves the meaning of every function it
touches, so any VIOLATION reported on a transformed tree that is not reported on the original is a false alarm of the
checker (a rule that depends on names, operand order, statement shape ...).

The transforms work on the AST and hand `ast.unparse` text to `Program(overrides=...)`; nothing is written to disk and
nothing is executed."""
from __future__ import annotations

import ast
import builtins
import copy
import os
from typing import Callable, Dict, List, Optional, Set

BUILTINS = set(dir(builtins))


def _functions(tree):
    """outermost function definitions (module level or class level)"""
    out = []
    for n in tree.body:
        if isinstance(n, (ast.FunctionDef, ast.AsyncFunctionDef)):
            out.append(n)
        elif isinstance(n, ast.ClassDef):
            for m in n.body:
                if isinstance(m, (ast.FunctionDef, ast.AsyncFunctionDef)):
                    out.append(m)
    return out


# --------------------------------------------------------------------------------------------- T1: rename locals
def _renameable(fn) -> Set[str]:
    """names bound by plain assignment / for / with / comprehension inside `fn` (nested functions included) that are
    not parameters of any function of the nest, not global / nonlocal, not imported, not exception names"""
    stored, banned = set(), set()
    for n in ast.walk(fn):
        if isinstance(n, ast.Name) and isinstance(n.ctx, (ast.Store, ast.Del)):
            stored.add(n.id)
        elif isinstance(n, (ast.FunctionDef, ast.AsyncFunctionDef, ast.Lambda)):
            a = n.args
            for p in list(a.posonlyargs) + list(a.args) + list(a.kwonlyargs) + ([a.vararg] if a.vararg else []) + ([a.kwarg] if a.kwarg else []):
                banned.add(p.arg)
            if not isinstance(n, ast.Lambda):
                banned.add(n.name)
        elif isinstance(n, (ast.Global, ast.Nonlocal)):
            banned.update(n.names)
        elif isinstance(n, ast.alias):
            banned.add((n.asname or n.name).split(".")[0])
        elif isinstance(n, ast.ExceptHandler) and n.name:
            banned.add(n.name)
        elif isinstance(n, ast.ClassDef):
            banned.add(n.name)
        elif isinstance(n, ast.MatchAs) and n.name:
            banned.add(n.name)
    return {s for s in stored - banned if not s.startswith("__")}


def rename_locals(tree, suffix="_q"):
    for fn in _functions(tree):
        names = _renameable(fn)
        # never capture an existing name
        existing = {n.id for n in ast.walk(fn) if isinstance(n, ast.Name)}
        ren = {n: n + suffix for n in names if n + suffix not in existing and n + suffix not in BUILTINS}
        for n in ast.walk(fn):
            if isinstance(n, ast.Name) and n.id in ren:
                n.id = ren[n.id]
    return tree


# --------------------------------------------------------------------------------------------- T2: flip comparisons
_FLIP = {ast.Lt: ast.Gt, ast.Gt: ast.Lt, ast.LtE: ast.GtE, ast.GtE: ast.LtE, ast.Eq: ast.Eq, ast.NotEq: ast.NotEq}


def _pure_operand(e) -> bool:
    """evaluation order of the two operands may be exchanged: names, constants, attribute / subscript chains of them,
    len() of such"""
    if isinstance(e, (ast.Name, ast.Constant)):
        return True
    if isinstance(e, ast.Attribute):
        return _pure_operand(e.value)
    if isinstance(e, ast.Subscript):
        return _pure_operand(e.value) and _pure_operand(e.slice)
    if isinstance(e, ast.BinOp):
        return _pure_operand(e.left) and _pure_operand(e.right)
    if isinstance(e, ast.UnaryOp):
        return _pure_operand(e.operand)
    if isinstance(e, ast.Call) and isinstance(e.func, ast.Name) and e.func.id == "len" and len(e.args) == 1 and not e.keywords:
        return _pure_operand(e.args[0])
    return False


class _FlipCompare(ast.NodeTransformer):
    def visit_Compare(self, n):
        self.generic_visit(n)
        if len(n.ops) == 1 and type(n.ops[0]) in _FLIP and _pure_operand(n.left) and _pure_operand(n.comparators[0]):
            # None / literal comparisons keep their usual orientation reversed too: `0 < x` for `x > 0`
            return ast.copy_location(ast.Compare(left=n.comparators[0], ops=[_FLIP[type(n.ops[0])]()], comparators=[n.left]), n)
        return n


def flip_compares(tree):
    return _FlipCompare().visit(tree)


# --------------------------------------------------------------------------------------------- T3: invert if/else
class _InvertIf(ast.NodeTransformer):
    def visit_If(self, n):
        self.generic_visit(n)
        if n.orelse and not (len(n.orelse) == 1 and isinstance(n.orelse[0], ast.If)):
            test = n.test.operand if isinstance(n.test, ast.UnaryOp) and isinstance(n.test.op, ast.Not) else ast.UnaryOp(op=ast.Not(), operand=n.test)
            return ast.copy_location(ast.If(test=test, body=n.orelse, orelse=n.body), n)
        return n


def invert_if_else(tree):
    return _InvertIf().visit(tree)


# --------------------------------------------------------------------------------------------- T4: early continue
class _EarlyContinue(ast.NodeTransformer):
    def visit_For(self, n):
        self.generic_visit(n)
        if len(n.body) == 1 and isinstance(n.body[0], ast.If) and not n.body[0].orelse and not n.orelse:
            i = n.body[0]
            test = i.test.operand if isinstance(i.test, ast.UnaryOp) and isinstance(i.test.op, ast.Not) else ast.UnaryOp(op=ast.Not(), operand=i.test)
            guard = ast.If(test=test, body=[ast.Continue()], orelse=[])
            n.body = [guard] + i.body
        return n


def early_continue(tree):
    return _EarlyContinue().visit(tree)


# --------------------------------------------------------------------------------------------- T5: named return values
class _NameReturns(ast.NodeTransformer):
    def __init__(self):
        self.k = 0

    def visit_Return(self, n):
        if n.value is None or isinstance(n.value, (ast.Name, ast.Constant)):
            return n
        self.k += 1
        name = f"result_{self.k}"
        return [ast.copy_location(ast.Assign(targets=[ast.Name(id=name, ctx=ast.Store())], value=n.value, lineno=n.lineno), n), ast.copy_location(ast.Return(value=ast.Name(id=name, ctx=ast.Load())), n)]

    def visit_Lambda(self, n):
        return n


def name_returns(tree):
    return _NameReturns().visit(tree)


# --------------------------------------------------------------------------------------------- T6: drop .keys()
class _DropKeys(ast.NodeTransformer):
    def _strip(self, it):
        if isinstance(it, ast.Call) and isinstance(it.func, ast.Attribute) and it.func.attr == "keys" and not it.args and not it.keywords:
            return it.func.value
        return it

    def visit_For(self, n):
        self.generic_visit(n)
        n.iter = self._strip(n.iter)
        return n

    def visit_comprehension(self, n):
        self.generic_visit(n)
        n.iter = self._strip(n.iter)
        return n


def drop_keys(tree):
    return _DropKeys().visit(tree)


# --------------------------------------------------------------------------------------------- T7: x += 1 -> x = x + 1
class _ExpandAug(ast.NodeTransformer):
    def visit_AugAssign(self, n):
        if isinstance(n.value, ast.Constant) and isinstance(n.value.value, int) and isinstance(n.op, (ast.Add, ast.Sub)) and isinstance(n.target, ast.Name):
            load = ast.Name(id=n.target.id, ctx=ast.Load())
            return ast.copy_location(ast.Assign(targets=[n.target], value=ast.BinOp(left=load, op=n.op, right=n.value), lineno=n.lineno), n)
        return n


def expand_aug(tree):
    return _ExpandAug().visit(tree)


# --------------------------------------------------------------------------------------------- T8: de-alias `is not None`
class _NotIsNone(ast.NodeTransformer):
    """`x is not None` -> `not (x is None)`"""

    def visit_Compare(self, n):
        self.generic_visit(n)
        if len(n.ops) == 1 and isinstance(n.ops[0], ast.IsNot) and isinstance(n.comparators[0], ast.Constant) and n.comparators[0].value is None:
            return ast.copy_location(ast.UnaryOp(op=ast.Not(), operand=ast.Compare(left=n.left, ops=[ast.Is()], comparators=n.comparators)), n)
        return n


def not_is_none(tree):
    return _NotIsNone().visit(tree)


TRANSFORMS: Dict[str, Callable] = {
    "identity-unparse": lambda t: t,
    "rename-locals": rename_locals,
    "flip-compares": flip_compares,
    "invert-if-else": invert_if_else,
    "early-continue": early_continue,
    "name-returns": name_returns,
    "drop-keys": drop_keys,
    "expand-aug": expand_aug,
    "not-is-none": not_is_none,
}


def overrides_for(repo: str, transform: Callable, only: Optional[List[str]] = None) -> Dict[str, str]:
    out = {}
    root = os.path.join(repo, "hypergraphx")
    for dp, dn, fn in os.walk(root):
        dn[:] = [d for d in dn if d != "__pycache__"]
        for f in fn:
            if not f.endswith(".py"):
                continue
            path = os.path.join(dp, f)
            rel = os.path.relpath(path, repo)
            if only and not any(rel.endswith(o) for o in only):
                continue
            try:
                src = open(path, encoding="utf-8").read()
                tree = ast.parse(src)
            except (OSError, SyntaxError):
                continue
            new = transform(copy.deepcopy(tree))
            ast.fix_missing_locations(new)
            try:
                text = ast.unparse(new)
                compile(text, rel, "exec")
            except Exception:
                continue
            out[rel] = text
    return out

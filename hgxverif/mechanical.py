"""Mechanical behaviour-preserving rewrites of the whole analysed tree (in memory), used to test that no check raises an
alarm on code in which the property still holds: every transform below preserves the meaning of every function it
touches, so any VIOLATION reported on a transformed tree that is not reported on the original is a false alarm of the
checker (a rule that depends on names, operand order, statement shape ...).

The transforms work on the AST and hand `ast.unparse` text to `Program(overrides=...)`; nothing is written to disk and
nothing is executed."""
from __future__ import annotations

import ast
import builtins
import copy
import os
from typing import Callable, Dict, List, Optional, Set

BUILTINS = set(dir(builtins))


def _functions(tree):
    """outermost function definitions (module level or class level)"""
    out = []
    for n in tree.body:
        if isinstance(n, (ast.FunctionDef, ast.AsyncFunctionDef)):
            out.append(n)
        elif isinstance(n, ast.ClassDef):
            for m in n.body:
                if isinstance(m, (ast.FunctionDef, ast.AsyncFunctionDef)):
                    out.append(m)
    return out


# --------------------------------------------------------------------------------------------- T1: rename locals
def _renameable(fn) -> Set[str]:
    """names bound by plain assignment / for / with / comprehension inside `fn` (nested functions included) that are
    not parameters of any function of the nest, not global / nonlocal, not imported, not exception names"""
    stored, banned = set(), set()
    for n in ast.walk(fn):
        if isinstance(n, ast.Name) and isinstance(n.ctx, (ast.Store, ast.Del)):
            stored.add(n.id)
        elif isinstance(n, (ast.FunctionDef, ast.AsyncFunctionDef, ast.Lambda)):
            a = n.args
            for p in list(a.posonlyargs) + list(a.args) + list(a.kwonlyargs) + ([a.vararg] if a.vararg else []) + ([a.kwarg] if a.kwarg else []):
                banned.add(p.arg)
            if not isinstance(n, ast.Lambda):
                banned.add(n.name)
        elif isinstance(n, (ast.Global, ast.Nonlocal)):
            banned.update(n.names)
        elif isinstance(n, ast.alias):
            banned.add((n.asname or n.name).split(".")[0])
        elif isinstance(n, ast.ExceptHandler) and n.name:
            banned.add(n.name)
        elif isinstance(n, ast.ClassDef):
            banned.add(n.name)
        elif isinstance(n, ast.MatchAs) and n.name:
            banned.add(n.name)
    return {s for s in stored - banned if not s.startswith("__")}


def rename_locals(tree, suffix="_q"):
    for fn in _functions(tree):
        names = _renameable(fn)
        # names that strings of the function refer to (`DataFrame.query("b in @sub_deg")`, format fields) keep their spelling
        import re as _re

        in_strings = set()
        for n in ast.walk(fn):
            if isinstance(n, ast.Constant) and isinstance(n.value, str):
                in_strings |= set(_re.findall(r"[A-Za-z_][A-Za-z_0-9]*", n.value))
        names = [n for n in names if n not in in_strings]
        # never capture an existing name
        existing = {n.id for n in ast.walk(fn) if isinstance(n, ast.Name)}
        ren = {n: n + suffix for n in names if n + suffix not in existing and n + suffix not in BUILTINS}
        for n in ast.walk(fn):
            if isinstance(n, ast.Name) and n.id in ren:
                n.id = ren[n.id]
    return tree


# --------------------------------------------------------------------------------------------- T2: flip comparisons
_FLIP = {ast.Lt: ast.Gt, ast.Gt: ast.Lt, ast.LtE: ast.GtE, ast.GtE: ast.LtE, ast.Eq: ast.Eq, ast.NotEq: ast.NotEq}


def _pure_operand(e) -> bool:
    """evaluation order of the two operands may be exchanged: names, constants, attribute / subscript chains of them,
    len() of such"""
    if isinstance(e, (ast.Name, ast.Constant)):
        return True
    if isinstance(e, ast.Attribute):
        return _pure_operand(e.value)
    if isinstance(e, ast.Subscript):
        return _pure_operand(e.value) and _pure_operand(e.slice)
    if isinstance(e, ast.BinOp):
        return _pure_operand(e.left) and _pure_operand(e.right)
    if isinstance(e, ast.UnaryOp):
        return _pure_operand(e.operand)
    if isinstance(e, ast.Call) and isinstance(e.func, ast.Name) and e.func.id == "len" and len(e.args) == 1 and not e.keywords:
        return _pure_operand(e.args[0])
    return False


class _FlipCompare(ast.NodeTransformer):
    def visit_Compare(self, n):
        self.generic_visit(n)
        if len(n.ops) == 1 and type(n.ops[0]) in _FLIP and _pure_operand(n.left) and _pure_operand(n.comparators[0]):
            # None / literal comparisons keep their usual orientation reversed too: `0 < x` for `x > 0`
            return ast.copy_location(ast.Compare(left=n.comparators[0], ops=[_FLIP[type(n.ops[0])]()], comparators=[n.left]), n)
        return n


def flip_compares(tree):
    return _FlipCompare().visit(tree)


# --------------------------------------------------------------------------------------------- T3: invert if/else
class _InvertIf(ast.NodeTransformer):
    def visit_If(self, n):
        self.generic_visit(n)
        if n.orelse and not (len(n.orelse) == 1 and isinstance(n.orelse[0], ast.If)):
            test = n.test.operand if isinstance(n.test, ast.UnaryOp) and isinstance(n.test.op, ast.Not) else ast.UnaryOp(op=ast.Not(), operand=n.test)
            return ast.copy_location(ast.If(test=test, body=n.orelse, orelse=n.body), n)
        return n


def invert_if_else(tree):
    return _InvertIf().visit(tree)


# --------------------------------------------------------------------------------------------- T4: early continue
class _EarlyContinue(ast.NodeTransformer):
    def visit_For(self, n):
        self.generic_visit(n)
        if len(n.body) == 1 and isinstance(n.body[0], ast.If) and not n.body[0].orelse and not n.orelse:
            i = n.body[0]
            test = i.test.operand if isinstance(i.test, ast.UnaryOp) and isinstance(i.test.op, ast.Not) else ast.UnaryOp(op=ast.Not(), operand=i.test)
            guard = ast.If(test=test, body=[ast.Continue()], orelse=[])
            n.body = [guard] + i.body
        return n


def early_continue(tree):
    return _EarlyContinue().visit(tree)


# --------------------------------------------------------------------------------------------- T5: named return values
class _NameReturns(ast.NodeTransformer):
    def __init__(self):
        self.k = 0

    def visit_Return(self, n):
        if n.value is None or isinstance(n.value, (ast.Name, ast.Constant)):
            return n
        self.k += 1
        name = f"result_{self.k}"
        return [ast.copy_location(ast.Assign(targets=[ast.Name(id=name, ctx=ast.Store())], value=n.value, lineno=n.lineno), n), ast.copy_location(ast.Return(value=ast.Name(id=name, ctx=ast.Load())), n)]

    def visit_Lambda(self, n):
        return n


def name_returns(tree):
    return _NameReturns().visit(tree)


# --------------------------------------------------------------------------------------------- T6: drop .keys()
class _DropKeys(ast.NodeTransformer):
    def _strip(self, it):
        if isinstance(it, ast.Call) and isinstance(it.func, ast.Attribute) and it.func.attr == "keys" and not it.args and not it.keywords:
            return it.func.value
        return it

    def visit_For(self, n):
        self.generic_visit(n)
        n.iter = self._strip(n.iter)
        return n

    def visit_comprehension(self, n):
        self.generic_visit(n)
        n.iter = self._strip(n.iter)
        return n


def drop_keys(tree):
    return _DropKeys().visit(tree)


# --------------------------------------------------------------------------------------------- T7: x += 1 -> x = x + 1
class _ExpandAug(ast.NodeTransformer):
    def visit_AugAssign(self, n):
        if isinstance(n.value, ast.Constant) and isinstance(n.value.value, int) and isinstance(n.op, (ast.Add, ast.Sub)) and isinstance(n.target, ast.Name):
            load = ast.Name(id=n.target.id, ctx=ast.Load())
            return ast.copy_location(ast.Assign(targets=[n.target], value=ast.BinOp(left=load, op=n.op, right=n.value), lineno=n.lineno), n)
        return n


def expand_aug(tree):
    return _ExpandAug().visit(tree)


# --------------------------------------------------------------------------------------------- T8: de-alias `is not None`
class _NotIsNone(ast.NodeTransformer):
    """`x is not None` -> `not (x is None)`"""

    def visit_Compare(self, n):
        self.generic_visit(n)
        if len(n.ops) == 1 and isinstance(n.ops[0], ast.IsNot) and isinstance(n.comparators[0], ast.Constant) and n.comparators[0].value is None:
            return ast.copy_location(ast.UnaryOp(op=ast.Not(), operand=ast.Compare(left=n.left, ops=[ast.Is()], comparators=n.comparators)), n)
        return n


def not_is_none(tree):
    return _NotIsNone().visit(tree)


# --------------------------------------------------------------------------------------------- T9: hoist self.<table> into locals
_REBINDERS = ("__init__", "populate_from_dict")


def hoist_self_attrs(tree):
    """`self._x` -> local alias bound once at the top of the method, for attributes that are only ever rebound in
    constructors / raw setters (so the alias and the attribute stay the same object)"""
    for cls in [n for n in tree.body if isinstance(n, ast.ClassDef)]:
        rebound_elsewhere = set()
        for m in [x for x in cls.body if isinstance(x, ast.FunctionDef)]:
            for n in ast.walk(m):
                if isinstance(n, ast.Attribute) and isinstance(n.ctx, (ast.Store, ast.Del)) and isinstance(n.value, ast.Name) and n.value.id == "self":
                    if not (m.name in _REBINDERS or m.name.startswith("set_")):
                        rebound_elsewhere.add(n.attr)
        for m in [x for x in cls.body if isinstance(x, ast.FunctionDef)]:
            if m.name in _REBINDERS or m.name.startswith("set_") or not m.args.args or m.args.args[0].arg != "self":
                continue
            if any(isinstance(n, (ast.FunctionDef, ast.Lambda)) and n is not m for n in ast.walk(m)):
                continue
            if any(isinstance(n, ast.Call) and isinstance(n.func, ast.Attribute) and n.func.attr in _REBINDERS + ("clear",) or (isinstance(n, ast.Call) and isinstance(n.func, ast.Attribute) and n.func.attr.startswith("set_")) for n in ast.walk(m)):
                continue
            loads = {}
            stores = set()
            for n in ast.walk(m):
                if isinstance(n, ast.Attribute) and isinstance(n.value, ast.Name) and n.value.id == "self" and n.attr.startswith("_") and not n.attr.startswith("__"):
                    if isinstance(n.ctx, ast.Load):
                        loads[n.attr] = loads.get(n.attr, 0) + 1
                    else:
                        stores.add(n.attr)
            # only container-valued attributes (subscripted / iterated / method-called somewhere), never scalars
            containerish = set()
            for n in ast.walk(m):
                for holder in ([n.value] if isinstance(n, ast.Subscript) else [n.func.value] if isinstance(n, ast.Call) and isinstance(n.func, ast.Attribute) else [n.iter] if isinstance(n, (ast.For, ast.comprehension)) else [n.comparators[0]] if isinstance(n, ast.Compare) and len(n.ops) == 1 and isinstance(n.ops[0], (ast.In, ast.NotIn)) else []):
                    if isinstance(holder, ast.Attribute) and isinstance(holder.value, ast.Name) and holder.value.id == "self":
                        containerish.add(holder.attr)
            names = {x.id for x in ast.walk(m) if isinstance(x, ast.Name)} | {a.arg for a in m.args.args}
            ren = {}
            for attr, cnt in loads.items():
                if cnt >= 2 and attr in containerish and attr not in stores and attr not in rebound_elsewhere:
                    local = attr.lstrip("_") + "_tbl"
                    if local not in names:
                        ren[attr] = local
            if not ren:
                continue

            class R(ast.NodeTransformer):
                def visit_Attribute(self, n):
                    self.generic_visit(n)
                    if isinstance(n.value, ast.Name) and n.value.id == "self" and n.attr in ren and isinstance(n.ctx, ast.Load):
                        return ast.copy_location(ast.Name(id=ren[n.attr], ctx=ast.Load()), n)
                    return n

            body = [R().visit(st) for st in m.body]
            first = 1 if body and isinstance(body[0], ast.Expr) and isinstance(body[0].value, ast.Constant) and isinstance(body[0].value.value, str) else 0
            binds = [ast.Assign(targets=[ast.Name(id=loc, ctx=ast.Store())], value=ast.Attribute(value=ast.Name(id="self", ctx=ast.Load()), attr=attr, ctx=ast.Load()), lineno=m.lineno) for attr, loc in sorted(ren.items())]
            m.body = body[:first] + binds + body[first:]
    return tree


# --------------------------------------------------------------------------------------------- T10: list comprehension -> loop
class _CompToLoop(ast.NodeTransformer):
    def __init__(self, fn):
        self.fn = fn
        self.names = {}
        for n in ast.walk(fn):
            if isinstance(n, ast.Name):
                self.names[n.id] = self.names.get(n.id, 0) + 1

    def visit_Assign(self, n):
        if len(n.targets) == 1 and isinstance(n.targets[0], ast.Name) and isinstance(n.value, ast.ListComp) and len(n.value.generators) == 1 and not n.value.generators[0].is_async:
            g = n.value.generators[0]
            tnames = [x.id for x in ast.walk(g.target) if isinstance(x, ast.Name)]
            inside = {}
            for x in ast.walk(n.value):
                if isinstance(x, ast.Name):
                    inside[x.id] = inside.get(x.id, 0) + 1
            # the comprehension variable must not exist outside the comprehension (it would leak / clobber)
            if all(self.names.get(t, 0) == inside.get(t, 0) for t in tnames) and n.targets[0].id not in inside and not any(isinstance(x, (ast.Lambda, ast.ListComp, ast.SetComp, ast.DictComp, ast.GeneratorExp)) and x is not n.value for x in ast.walk(n.value)):
                acc = n.targets[0].id
                app = ast.Expr(value=ast.Call(func=ast.Attribute(value=ast.Name(id=acc, ctx=ast.Load()), attr="append", ctx=ast.Load()), args=[n.value.elt], keywords=[]))
                body = [app]
                for c in reversed(g.ifs):
                    body = [ast.If(test=c, body=body, orelse=[])]
                loop = ast.For(target=g.target, iter=g.iter, body=body, orelse=[], lineno=n.lineno)
                init = ast.Assign(targets=[ast.Name(id=acc, ctx=ast.Store())], value=ast.List(elts=[], ctx=ast.Load()), lineno=n.lineno)
                return [init, loop]
        return n

    def visit_FunctionDef(self, n):
        return n if n is not self.fn else self.generic_visit(n)

    def visit_Lambda(self, n):
        return n


def comp_to_loop(tree):
    for fn in _functions(tree):
        _CompToLoop(fn).visit(fn)
    return tree


# --------------------------------------------------------------------------------------------- T11: del d[k] -> d.pop(k)
class _DelToPop(ast.NodeTransformer):
    def visit_Delete(self, n):
        if len(n.targets) == 1 and isinstance(n.targets[0], ast.Subscript) and not isinstance(n.targets[0].slice, ast.Slice):
            t = n.targets[0]
            return ast.copy_location(ast.Expr(value=ast.Call(func=ast.Attribute(value=t.value, attr="pop", ctx=ast.Load()), args=[t.slice], keywords=[])), n)
        return n


def del_to_pop(tree):
    # only on dict-typed internal tables of the containers: `del self._x[k]` / `del <name>[k]` where name ends in a table-ish word
    class Only(_DelToPop):
        def visit_Delete(self, n):
            if len(n.targets) == 1 and isinstance(n.targets[0], ast.Subscript):
                base = n.targets[0].value
                if isinstance(base, ast.Attribute) and isinstance(base.value, ast.Name) and base.value.id == "self" and base.attr.startswith("_") and "adj" not in base.attr or (isinstance(base, ast.Attribute) and base.attr in ("_adj", "_adj_source", "_adj_target")):
                    return super().visit_Delete(n)
            return n

    return Only().visit(tree)


# --------------------------------------------------------------------------------------------- T12: x not in d -> not x in d
class _NotIn(ast.NodeTransformer):
    def visit_Compare(self, n):
        self.generic_visit(n)
        if len(n.ops) == 1 and isinstance(n.ops[0], ast.NotIn):
            return ast.copy_location(ast.UnaryOp(op=ast.Not(), operand=ast.Compare(left=n.left, ops=[ast.In()], comparators=n.comparators)), n)
        return n


def not_in(tree):
    return _NotIn().visit(tree)


# --------------------------------------------------------------------------------------------- T13: drop `else` after a returning branch
def _always_leaves(stmts) -> bool:
    if not stmts:
        return False
    last = stmts[-1]
    if isinstance(last, (ast.Return, ast.Raise, ast.Continue, ast.Break)):
        return True
    if isinstance(last, ast.If) and last.orelse:
        return _always_leaves(last.body) and _always_leaves(last.orelse)
    return False


def _flatten_else(stmts):
    out = []
    for st in stmts:
        for fld in ("body", "orelse", "finalbody"):
            sub = getattr(st, fld, None)
            if isinstance(sub, list) and sub and isinstance(sub[0], ast.stmt):
                setattr(st, fld, _flatten_else(sub))
        if isinstance(st, ast.Try):
            for h in st.handlers:
                h.body = _flatten_else(h.body)
        if isinstance(st, ast.If) and st.orelse and _always_leaves(st.body) and isinstance(st.body[-1], (ast.Return, ast.Raise)):
            rest = st.orelse
            st.orelse = []
            out.append(st)
            out.extend(rest)
        else:
            out.append(st)
    return out


def drop_else_after_return(tree):
    for fn in [n for n in ast.walk(tree) if isinstance(n, (ast.FunctionDef, ast.AsyncFunctionDef))]:
        fn.body = _flatten_else(fn.body)
    return tree


# --------------------------------------------------------------------------------------------- T15..T21 (round v styles)
def _blocks(fn):
    """every statement list inside `fn` (nested function bodies excluded)"""
    out = []

    def rec(stmts):
        out.append(stmts)
        for st in stmts:
            if isinstance(st, (ast.FunctionDef, ast.AsyncFunctionDef, ast.ClassDef)):
                continue
            for fld in ("body", "orelse", "finalbody"):
                sub = getattr(st, fld, None)
                if isinstance(sub, list) and sub and isinstance(sub[0], ast.stmt):
                    rec(sub)
            if isinstance(st, ast.Try):
                for h in st.handlers:
                    rec(h.body)
            if hasattr(ast, "Match") and isinstance(st, getattr(ast, "Match")):
                for c in st.cases:
                    rec(c.body)

    rec(fn.body)
    return out


def _fresh(fn, base):
    names = {x.id for x in ast.walk(fn) if isinstance(x, ast.Name)} | {a.arg for a in ast.walk(fn) if isinstance(a, ast.arg)}
    i = 0
    while f"{base}{i}" in names:
        i += 1
    return f"{base}{i}"


def name_tests(tree):
    """`if <test>:` -> `flag = <test>; if flag:` (the test is evaluated at the same point, once)"""
    for fn in _functions(tree):
        k = [0]
        for blk in _blocks(fn):
            i = 0
            while i < len(blk):
                st = blk[i]
                if isinstance(st, ast.If) and isinstance(st.test, (ast.Compare, ast.BoolOp, ast.UnaryOp)) and not any(isinstance(x, (ast.NamedExpr, ast.Yield, ast.Await)) for x in ast.walk(st.test)):
                    nm = _fresh(fn, f"cond_{k[0]}_")
                    k[0] += 1
                    blk.insert(i, ast.Assign(targets=[ast.Name(id=nm, ctx=ast.Store())], value=st.test, lineno=st.lineno))
                    st.test = ast.Name(id=nm, ctx=ast.Load())
                    i += 1
                i += 1
    return tree


def name_tests_apart(tree):
    """like name-tests, but an unrelated call statement stands between the flag and its `if` (so that the flag is not
    trivially adjacent to its use)"""
    name_tests(tree)
    for fn in _functions(tree):
        for blk in _blocks(fn):
            i = 0
            while i + 1 < len(blk):
                st, nx = blk[i], blk[i + 1]
                if isinstance(st, ast.Assign) and isinstance(st.targets[0], ast.Name) and st.targets[0].id.startswith("cond_") and isinstance(nx, ast.If):
                    blk.insert(i + 1, ast.Expr(value=ast.Call(func=ast.Name(id="id", ctx=ast.Load()), args=[ast.Constant(value=None)], keywords=[])))
                    i += 1
                i += 1
    return tree


def split_and(tree):
    """`if a and b: body` (no else) -> `if a: if b: body`"""
    class R(ast.NodeTransformer):
        def visit_If(self, n):
            self.generic_visit(n)
            if not n.orelse and isinstance(n.test, ast.BoolOp) and isinstance(n.test.op, ast.And) and len(n.test.values) >= 2:
                inner = n.body
                for t in reversed(n.test.values[1:]):
                    inner = [ast.If(test=t, body=inner, orelse=[])]
                return ast.If(test=n.test.values[0], body=inner, orelse=[])
            return n

    for fn in _functions(tree):
        R().visit(fn)
    return tree


def ifexp_to_if(tree):
    """`x = a if c else b` -> `if c: x = a` / `else: x = b`"""
    for fn in _functions(tree):
        for blk in _blocks(fn):
            for i, st in enumerate(list(blk)):
                if isinstance(st, ast.Assign) and len(st.targets) == 1 and isinstance(st.targets[0], ast.Name) and isinstance(st.value, ast.IfExp):
                    tgt = st.targets[0].id
                    v_ = st.value
                    blk[blk.index(st)] = ast.If(
                        test=v_.test,
                        body=[ast.Assign(targets=[ast.Name(id=tgt, ctx=ast.Store())], value=v_.body, lineno=st.lineno)],
                        orelse=[ast.Assign(targets=[ast.Name(id=tgt, ctx=ast.Store())], value=v_.orelse, lineno=st.lineno)],
                    )
    return tree


def if_to_ifexp(tree):
    """`if c: x = a` / `else: x = b` -> `x = a if c else b`"""
    for fn in _functions(tree):
        for blk in _blocks(fn):
            for st in list(blk):
                if isinstance(st, ast.If) and len(st.body) == 1 and len(st.orelse) == 1 and all(isinstance(x, ast.Assign) and len(x.targets) == 1 and isinstance(x.targets[0], ast.Name) for x in (st.body[0], st.orelse[0])) and st.body[0].targets[0].id == st.orelse[0].targets[0].id:
                    blk[blk.index(st)] = ast.Assign(targets=[ast.Name(id=st.body[0].targets[0].id, ctx=ast.Store())], value=ast.IfExp(test=st.test, body=st.body[0].value, orelse=st.orelse[0].value), lineno=st.lineno)
    return tree


def split_chain(tree):
    """`a <= x < b` -> `a <= x and x < b` when the middle operands are plain names / constants"""
    class R(ast.NodeTransformer):
        def visit_Compare(self, n):
            self.generic_visit(n)
            if len(n.ops) >= 2 and all(isinstance(c, (ast.Name, ast.Constant)) for c in n.comparators[:-1]):
                parts = []
                left = n.left
                for op, c in zip(n.ops, n.comparators):
                    parts.append(ast.Compare(left=copy.deepcopy(left), ops=[op], comparators=[copy.deepcopy(c)]))
                    left = c
                return ast.BoolOp(op=ast.And(), values=parts)
            return n

    for fn in _functions(tree):
        R().visit(fn)
    return tree


def enumerate_to_counter(tree):
    """`for i, x in enumerate(seq): body` -> `i = 0; for x in seq: body; i += 1` when the body has no `continue` of its own"""
    def own_continue(loop):
        def rec(stmts):
            for st in stmts:
                if isinstance(st, ast.Continue):
                    return True
                if isinstance(st, (ast.For, ast.While, ast.AsyncFor, ast.FunctionDef, ast.ClassDef)):
                    continue
                for fld in ("body", "orelse", "finalbody"):
                    sub = getattr(st, fld, None)
                    if isinstance(sub, list) and sub and isinstance(sub[0], ast.stmt) and rec(sub):
                        return True
                if isinstance(st, ast.Try) and any(rec(h.body) for h in st.handlers):
                    return True
            return False
        return rec(loop.body)

    for fn in _functions(tree):
        for blk in _blocks(fn):
            for st in list(blk):
                if isinstance(st, ast.For) and isinstance(st.iter, ast.Call) and isinstance(st.iter.func, ast.Name) and st.iter.func.id == "enumerate" and len(st.iter.args) == 1 and not st.iter.keywords and isinstance(st.target, ast.Tuple) and len(st.target.elts) == 2 and isinstance(st.target.elts[0], ast.Name) and not own_continue(st) and not st.orelse:
                    i_name = st.target.elts[0].id
                    # the counter must not be assigned in the body
                    if any(isinstance(x, ast.Name) and x.id == i_name and isinstance(x.ctx, ast.Store) for b_ in st.body for x in ast.walk(b_)):
                        continue
                    idx = blk.index(st)
                    st.target = st.target.elts[1]
                    st.iter = st.iter.args[0]
                    st.body.append(ast.AugAssign(target=ast.Name(id=i_name, ctx=ast.Store()), op=ast.Add(), value=ast.Constant(value=1)))
                    blk.insert(idx, ast.Assign(targets=[ast.Name(id=i_name, ctx=ast.Store())], value=ast.Constant(value=0), lineno=st.lineno))
    return tree


def parallel_assign(tree):
    """two consecutive simple assignments `a = e1` / `b = e2` (e2 does not read a, both to plain fresh names) -> `a, b = e1, e2`"""
    for fn in _functions(tree):
        for blk in _blocks(fn):
            i = 0
            while i + 1 < len(blk):
                s1, s2 = blk[i], blk[i + 1]
                if all(isinstance(x, ast.Assign) and len(x.targets) == 1 and isinstance(x.targets[0], ast.Name) and not isinstance(x.value, (ast.Tuple, ast.Yield, ast.Await)) for x in (s1, s2)):
                    a, b = s1.targets[0].id, s2.targets[0].id
                    reads2 = {x.id for x in ast.walk(s2.value) if isinstance(x, ast.Name)}
                    reads1 = {x.id for x in ast.walk(s1.value) if isinstance(x, ast.Name)}
                    if a != b and a not in reads2 and b not in reads1:
                        blk[i] = ast.Assign(targets=[ast.Tuple(elts=[ast.Name(id=a, ctx=ast.Store()), ast.Name(id=b, ctx=ast.Store())], ctx=ast.Store())], value=ast.Tuple(elts=[s1.value, s2.value], ctx=ast.Load()), lineno=s1.lineno)
                        del blk[i + 1]
                        i += 1
                        continue
                i += 1
    return tree


TRANSFORMS: Dict[str, Callable] = {
    "identity-unparse": lambda t: t,
    "rename-locals": rename_locals,
    "flip-compares": flip_compares,
    "invert-if-else": invert_if_else,
    "early-continue": early_continue,
    "name-returns": name_returns,
    "drop-keys": drop_keys,
    "expand-aug": expand_aug,
    "not-is-none": not_is_none,
    "hoist-self-attrs": hoist_self_attrs,
    "comp-to-loop": comp_to_loop,
    "del-to-pop": del_to_pop,
    "not-in": not_in,
    "drop-else-after-return": drop_else_after_return,
    "name-tests": name_tests,
    "name-tests-apart": name_tests_apart,
    "split-and": split_and,
    "ifexp-to-if": ifexp_to_if,
    "if-to-ifexp": if_to_ifexp,
    "split-chain": split_chain,
    "enumerate-to-counter": enumerate_to_counter,
    "parallel-assign": parallel_assign,
}


def overrides_for(repo: str, transform: Callable, only: Optional[List[str]] = None) -> Dict[str, str]:
    out = {}
    root = os.path.join(repo, "hypergraphx")
    for dp, dn, fn in os.walk(root):
        dn[:] = [d for d in dn if d != "__pycache__"]
        for f in fn:
            if not f.endswith(".py"):
                continue
            path = os.path.join(dp, f)
            rel = os.path.relpath(path, repo)
            if only and not any(rel.endswith(o) for o in only):
                continue
            try:
                src = open(path, encoding="utf-8").read()
                tree = ast.parse(src)
            except (OSError, SyntaxError):
                continue
            new = transform(copy.deepcopy(tree))
            ast.fix_missing_locations(new)
            try:
                text = ast.unparse(new)
                compile(text, rel, "exec")
            except Exception:
                continue
            out[rel] = text
    return out

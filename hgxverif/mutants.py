"""Self-test of the checker: in-memory source variants of /repo (nothing is written to disk).

Each variant is an exact-text edit of one file.  `break` variants still byte-compile and must make the named
rule of the named property report a violation; `benign` variants are behaviour-preserving rewrites (renaming,
equivalent comparison forms, accepted idioms) and must leave the check silent.  A variant whose anchor text is
no longer present is skipped and reported; the quick tier runs the first breaking variant of a property that
applies as a positive control (a rule that can no longer fire is an ANALYSIS-ERROR, not a pass).
"""
from __future__ import annotations

import ast
from dataclasses import dataclass
from typing import List, Optional

H = "hypergraphx/core/hypergraph.py"
D = "hypergraphx/core/directed_hypergraph.py"
T = "hypergraphx/core/temporal_hypergraph.py"
M = "hypergraphx/core/multiplex_hypergraph.py"
CC = "hypergraphx/utils/cc.py"
DEG = "hypergraphx/measures/degree.py"
VIS = "hypergraphx/utils/visits.py"
SAVE = "hypergraphx/readwrite/save.py"
LOAD = "hypergraphx/readwrite/load.py"
HASH = "hypergraphx/readwrite/hashing.py"
LIN = "hypergraphx/linalg/linalg.py"
PROJ = "hypergraphx/representations/projections.py"
SIMP = "hypergraphx/representations/simplicial_complex.py"
SCEN = "hypergraphx/measures/s_centralities.py"
DDEG = "hypergraphx/measures/directed/degree.py"
SIG = "hypergraphx/measures/directed/hyperedge_signature.py"
REC = "hypergraphx/measures/directed/reciprocity.py"
CM = "hypergraphx/generation/configuration_model.py"
DCM = "hypergraphx/generation/directed_configuration_model.py"
RND = "hypergraphx/generation/random.py"
SF = "hypergraphx/generation/scale_free.py"
MMSBM = "hypergraphx/communities/hy_mmsbm/model.py"
SAMP = "hypergraphx/generation/hy_mmsbm_sampling.py"
MT = "hypergraphx/communities/hypergraph_mt/model.py"
SC = "hypergraphx/communities/hy_sc/model.py"
CONT = "hypergraphx/dynamics/contagion.py"
RW = "hypergraphx/dynamics/randwalk.py"
FILT = "hypergraphx/filters/metadata_filters.py"
SVH = "hypergraphx/filters/statistical_filters.py"
OVL = "hypergraphx/measures/multiplex/overlap.py"


@dataclass
class Mutant:
    id: str
    prop: str
    file: str
    find: str
    replace: str
    rule: Optional[str] = None  # expected rule for breaking variants
    kind: str = "break"
    count: int = 1  # how many occurrences `find` must have (all are replaced)
    nth: Optional[int] = None  # replace only the n-th occurrence (0-based) when set

    def apply(self, src: str) -> Optional[str]:
        n = src.count(self.find)
        if self.nth is not None:
            if n <= self.nth:
                return None
            i = -1
            for _ in range(self.nth + 1):
                i = src.index(self.find, i + 1)
            out = src[:i] + self.replace + src[i + len(self.find):]
        else:
            if n != self.count:
                return None
            out = src.replace(self.find, self.replace)
        try:
            ast.parse(out)
        except SyntaxError:
            return None
        return out


def B(id, prop, file, find, replace, rule, **kw):
    return Mutant(id, prop, file, find, replace, rule, "break", **kw)


def OKV(id, prop, file, find, replace, **kw):
    return Mutant(id, prop, file, find, replace, None, "benign", **kw)


MUTANTS: List[Mutant] = [
    # ------------------------------------------------------------------ C01
    B("c01-setweight-nocanon", "C01", H, "        edge = tuple(sorted(edge))\n        if edge not in self._edge_list:\n            raise ValueError(\"Edge {} not in hypergraph.\".format(edge))\n        edge_id = self._edge_list[edge]\n        self._weights[edge_id] = weight", "        if edge not in self._edge_list:\n            raise ValueError(\"Edge {} not in hypergraph.\".format(edge))\n        edge_id = self._edge_list[edge]\n        self._weights[edge_id] = weight", "K-KEY"),
    B("c01-checkedge-nocanon", "C01", H, "        return tuple(sorted(edge)) in self._edge_list", "        return tuple(edge) in self._edge_list", "K-KEY"),
    B("c01-removeedge-keepweights", "C01", H, "        del self._weights[self._edge_list[edge]]\n", "", "P-DEL"),
    B("c01-removeedge-keepmeta", "C01", H, "        del self._edge_metadata[self._edge_list[edge]]\n", "", "P-DEL"),
    B("c01-adj-outside-fresh", "C01", H, "            self._next_edge_id += 1\n            for node in edge:\n                self.add_node(node)\n                self._adj[node].append(self._edge_list[edge])\n        else:", "            self._next_edge_id += 1\n        else:\n            pass\n        for node in edge:\n            self.add_node(node)\n            self._adj[node].append(self._edge_list[edge])\n        if edge in self._edge_list:", "P-ADJ1"),
    B("c01-accumulate-overwrite", "C01", H, "                self._weights[self._edge_list[edge]] += weight", "                self._weights[self._edge_list[edge]] = weight", "P-ACCUM"),
    B("c01-upto-strict", "C01", H, "                    if len(edge) - 1 <= order\n                ]", "                    if len(edge) - 1 < order\n                ]", "M-UPTO"),
    B("c01-size-off-by-one", "C01", H, "                    if len(self._reverse_edge_list[edge_id]) - 1 == order", "                    if len(self._reverse_edge_list[edge_id]) == order", "K-SIZE"),
    B("c01-neighbors-self", "C01", H, "            edges = self.get_incident_edges(node, order=order)\n            for edge in edges:\n                neigh.update(edge)\n            if node in neigh:\n                neigh.remove(node)\n            return neigh", "            edges = self.get_incident_edges(node, order=order)\n            for edge in edges:\n                neigh.update(edge)\n            return neigh", "P-NEIGH"),
    B("c01-excl-or", "C01", H, "        if node not in self._adj:\n            raise ValueError(\"Node {} not in hypergraph.\".format(node))\n        if order is not None and size is not None:\n            raise ValueError(\"Order and size cannot be both specified.\")\n        if order is None and size is None:\n            return list(", "        if node not in self._adj:\n            raise ValueError(\"Node {} not in hypergraph.\".format(node))\n        if order is not None or size is not None:\n            raise ValueError(\"Order and size cannot be both specified.\")\n        if order is None and size is None:\n            return list(", "M-EXCL"),
    B("c01-removenode-keepmeta", "C01", H, "        del self._adj[node]\n        del self._node_metadata[node]\n", "        del self._adj[node]\n", "P-NODE"),
    B("c01-weighted-flag-first", "C01", H, "        if weights is not None:\n            if len(set(edge_list)) != len(list(edge_list)):", "        if weights is not None and not self._weighted:\n            self._weighted = True\n        if weights is not None:\n            if len(set(edge_list)) != len(list(edge_list)):", "P-ATOMIC"),
    B("c01-getweights-mutates", "C01", H, "        if asdict:\n            return w\n        else:\n            return list(w.values())", "        if asdict:\n            return w\n        else:\n            self._weights.update({})\n            return list(w.values())", "E-PURE"),
    B("c01-degree-drop-filter", "C01", DEG, "        return len(hg.get_incident_edges(node, size=size))", "        return len(hg.get_incident_edges(node))", "F-FWD"),
    OKV("c01-benign-rename", "C01", H, "        edge_id = self._edge_list[edge]\n        self._weights[edge_id] = weight", "        eid_ = self._edge_list[edge]\n        self._weights[eid_] = weight"),
    OKV("c01-benign-compare-flip", "C01", H, "                    if len(edge) - 1 == order\n                ]", "                    if order == len(edge) - 1\n                ]"),
    OKV("c01-benign-discard", "C01", H, "            edges = self.get_incident_edges(node)\n            for edge in edges:\n                neigh.update(edge)\n            if node in neigh:\n                neigh.remove(node)", "            edges = self.get_incident_edges(node)\n            for edge in edges:\n                neigh.update(edge)\n            neigh.discard(node)"),
    OKV("c01-benign-pop-delete", "C01", H, "        del self._weights[self._edge_list[edge]]\n", "        self._weights.pop(self._edge_list[edge], None)\n"),
    # ------------------------------------------------------------------ C02
    B("c02-swap-adjacency", "C02", D, "            for node in source:\n                self.add_node(node)\n                self._adj_source[node].append(idx)", "            for node in source:\n                self.add_node(node)\n                self._adj_target[node].append(idx)", "K-KEY"),
    B("c02-getsources-swapped", "C02", D, "        return [edge[0] for edge in self._edge_list.keys()]", "        return [edge[1] for edge in self._edge_list.keys()]", "K-ROLE"),
    B("c02-source-edges-read-target", "C02", D, "            return [self._reverse_edge_list[e_idx] for e_idx in self._adj_source[node]]", "            return [self._reverse_edge_list[e_idx] for e_idx in self._adj_target[node]]", "K-ROLE"),
    B("c02-key-swapped", "C02", D, "        edge = (source, target)\n", "        edge = (target, source)\n", "K-KEY"),
    B("c02-clear-partial", "C02", D, "        self._weights.clear()\n", "", "P-CLEAR"),
    B("c02-addnode-wipes", "C02", D, "        if metadata is None:\n            metadata = {}\n        if node not in self._adj_source:", "        if metadata is None:\n            metadata = {}\n            self._node_metadata[node] = {}\n        if node not in self._adj_source:", "P-NODE"),
    B("c02-checknode-or", "C02", D, "        return node in self._adj_source\n", "        return node in self._adj_source or self._adj_target\n", "K-BOOL"),
    B("c02-setweight-raw", "C02", D, "        edge = (tuple(sorted(edge[0])), tuple(sorted(edge[1])))\n        if edge in self._edge_list:\n            idx = self._edge_list[edge]\n            self._weights[idx] = weight", "        if edge in self._edge_list:\n            idx = self._edge_list[edge]\n            self._weights[idx] = weight", "K-KEY"),
    OKV("c02-benign-rename-idx", "C02", D, "            idx = self._next_edge_id\n            self._next_edge_id += 1\n            self._edge_list[edge] = idx", "            new_id = self._next_edge_id\n            idx = new_id\n            self._next_edge_id += 1\n            self._edge_list[edge] = idx"),
    # ------------------------------------------------------------------ C03
    B("c03-window-closed", "C03", T, "                if time_window[0] <= _t < time_window[1]:", "                if time_window[0] <= _t <= time_window[1]:", "M-WINDOW"),
    B("c03-negative-time", "C03", T, "        if t < 0:\n            raise ValueError(\"Time must be a positive integer\")\n", "", "P-TIMEVAL"),
    B("c03-key-order", "C03", T, "        edge = (t, _edge)\n", "        edge = (_edge, t)\n", "K-KEY"),
    B("c03-getweight-args", "C03", T, "                weight = self.get_weight(edge[1], edge[0])", "                weight = self.get_weight(edge[0], edge[1])", "K-ARG"),
    B("c03-len-key", "C03", T, "                edges = [edge for edge in edges if len(edge[1]) - 1 == order]", "                edges = [edge for edge in edges if len(edge) - 1 == order]", "K-LEN"),
    B("c03-use-after-delete", "C03", T, "                weight = self._weights.get(edge_id, 1)\n                metadata = self._edge_metadata.get(edge_id, {})\n\n                self.remove_edge(edge, time)", "                self.remove_edge(edge, time)\n                weight = self._weights.get(edge_id, 1)\n                metadata = self._edge_metadata.get(edge_id, {})\n", "P-SHRINK"),
    B("c03-add-if-present", "C03", T, "                    if not v.check_node(node):\n                        v.add_node(node)", "                    if v.check_node(node):\n                        v.add_node(node)", "P-ABSENT"),
    B("c03-uniq-nodes-only", "C03", T, "len(set(zip(time_list, edge_list)))", "len(set(edge_list))", "K-UNIQ"),
    OKV("c03-benign-window-split", "C03", T, "                if time_window[0] <= _t < time_window[1]:", "                if time_window[0] <= _t and _t < time_window[1]:"),
    # ------------------------------------------------------------------ C04
    B("c04-canon-whole-key", "C04", M, "        nodes, layer = edge\n        edge = (_canon_edge(nodes), layer)\n", "        edge = _canon_edge(edge)\n", "K-ARG"),
    B("c04-layer-not-registered", "C04", M, "        self._existing_layers.add(layer)\n", "", "P-LAYERREG"),
    B("c04-aggregate-aliases-meta", "C04", M, "            hypergraph_metadata=dict(self._hypergraph_metadata),", "            hypergraph_metadata=self._hypergraph_metadata,", "E-PURE"),
    B("c04-uniq-nodes-only", "C04", M, "len(set(zip(edge_list, edge_layer)))", "len(set(edge_list))", "K-UNIQ"),
    B("c04-overlap-wrong-layer", "C04", OVL, "            w = h.get_weight(edge, layer)", "            w = h.get_weight(edge, list(h.get_existing_layers())[0])", "F-LAYERS"),
    # ------------------------------------------------------------------ C05
    B("c05-weight-is-id", "C05", H, "                        weight=self.get_weight(edge),\n                        metadata=self.get_edge_metadata(edge),", "                        weight=self._edge_list[edge],\n                        metadata=self.get_edge_metadata(edge),", "K-ARG"),
    B("c05-copy-shallow", "C05", H, "        return copy.deepcopy(self)", "        return copy.copy(self)", "E-FRESHCOPY"),
    B("c05-unweighted-extract", "C05", H, "        h = Hypergraph(weighted=self.is_weighted())", "        h = Hypergraph()", "X-FLAG"),
    B("c05-subset-reversed", "C05", H, "            if set(edge).issubset(set(nodes)):", "            if set(nodes).issubset(set(edge)):", "X-SUBSET"),
    B("c05-drop-weights", "C05", D, "                edge_weights = [self.get_weight(edge) for edge in edges]\n                h.add_edges(edges, edge_weights)\n            else:\n                h.add_edges(edges)\n\n            for node in h.get_nodes():\n                h.set_node_metadata(node, self.get_node_metadata(node))\n            for edge in edges:\n                h.set_edge_metadata(edge, self.get_edge_metadata(edge))\n            return h\n\n        elif subhypergraph:", "                h.add_edges(edges)\n            else:\n                h.add_edges(edges)\n\n            for node in h.get_nodes():\n                h.set_node_metadata(node, self.get_node_metadata(node))\n            for edge in edges:\n                h.set_edge_metadata(edge, self.get_edge_metadata(edge))\n            return h\n\n        elif subhypergraph:", "X-WEIGHT"),
    # ------------------------------------------------------------------ C06
    B("c06-save-writes-source", "C06", SAVE, "                time, edge = edge\n                metadata = dict(metadata)\n", "                time, edge = edge\n", "E-PURE"),
    B("c06-time-key-renamed", "C06", SAVE, "                metadata[\"time\"] = time", "                metadata[\"timestamp\"] = time", "S-JSONKEYS"),
    B("c06-pickle-key-mismatch", "C06", T, "        self._reverse_edge_list = data.get(\"reverse_edge_list\", {})", "        self._reverse_edge_list = data.get(\"_reverse_edge_list\", {})", "S-PICKLE"),
    B("c06-load-layer-from-time", "C06", LOAD, "                    layer = edge[\"metadata\"].get(\n                        \"layer\"\n                    )", "                    layer = edge[\"metadata\"].get(\n                        \"time\"\n                    )", "S-LOADARGS"),
    B("c06-pickle-wrong-class", "C06", LOAD, "            H = TemporalHypergraph(weighted=data[\"_weighted\"])", "            H = Hypergraph(weighted=data[\"_weighted\"])", "S-DISPATCH"),
    # ------------------------------------------------------------------ C07
    B("c07-unsorted-edges", "C07", M, "        for edge in sorted(self._edge_list.keys()):\n            edge = (tuple(sorted(edge[0])), edge[1])", "        for edge in self._edge_list.keys():\n            edge = (tuple(sorted(edge[0])), edge[1])", "S-HASHSORT"),
    B("c07-layer-dropped", "C07", M, "                    \"nodes\": edge,\n                    \"weight\": self._weights.get(edge_id, 1),", "                    \"nodes\": edge[0],\n                    \"weight\": self._weights.get(edge_id, 1),", "S-HASHFIELDS"),
    B("c07-no-sort-keys", "C07", HASH, "json.dumps(serialized_hg, sort_keys=True)", "json.dumps(serialized_hg)", "S-HASHSORT"),
    B("c07-hash-stale-nodes", "C07", D, "        del self._adj_target[node]\n        del self._node_metadata[node]\n", "        del self._adj_target[node]\n", "S-HASHSTALE"),
    # ------------------------------------------------------------------ C08
    B("c08-cc-swap", "C08", CC, "_bfs(hg, node, size=size, order=order)", "_bfs(hg, node, size=order, order=size)", "F-FWD", nth=0),
    B("c08-cc-drop", "C08", CC, "    return len(hg.largest_component(size=size, order=order))", "    return len(hg.largest_component(size=None, order=None))", "F-FWD"),
    B("c08-truthy-order", "C08", DEG, "    if order is None:\n        return {node: hg.degree(node) for node in hg.get_nodes()}", "    if not order:\n        return {node: hg.degree(node) for node in hg.get_nodes()}", "M-NONE"),
    B("c08-cc-no-mark", "C08", CC, "            visited += component\n", "", "CC-COVER"),
    B("c08-degree-set", "C08", DEG, "        return len(hg.get_incident_edges(node))", "        return len(hg.get_neighbors(node))", "D-LEN"),
    # ------------------------------------------------------------------ C09
    B("c09-degree-by-index", "C09", LIN, "        degree_dct[name]\n        for name in sorted(inverse_mapping.keys(), key=inverse_mapping.get)", "        degree_dct[inverse_mapping[name]]\n        for name in sorted(inverse_mapping.keys(), key=inverse_mapping.get)", "K-KEY-LOCAL"),
    B("c09-no-setdiag", "C09", LIN, "    adj.setdiag(0)\n", "", "M-DIAG"),
    B("c09-weights-unfiltered", "C09", LIN, "hypergraph.get_weights(order=order)", "hypergraph.get_weights()", "W-ORDER"),
    B("c09-rows-by-label", "C09", LIN, "    hye_list = [tuple(encoder.transform(hye)) for hye in hypergraph.get_edges()]", "    hye_list = [tuple(hye) for hye in hypergraph.get_edges()]", "K-ENC"),
    B("c09-snapshot-key", "C09", LIN, "        temporal_adjacency_matrixes[t] = adj_t", "        temporal_adjacency_matrixes[len(temporal_adjacency_matrixes)] = adj_t", "T-SNAP"),
    # ------------------------------------------------------------------ C10
    B("c10-threshold-strict", "C10", PROJ, "                    if w >= s:\n                        if weighted:\n                            g.add_edge(\n", "                    if w > s:\n                        if weighted:\n                            g.add_edge(\n", "M-THRESH"),
    B("c10-arc-reversed", "C10", PROJ, "                source = set(edge1[1])\n                target = set(edge2[0])", "                source = set(edge1[0])\n                target = set(edge2[1])", "K-ROLE"),
    B("c10-pairs-skip-last", "C10", PROJ, "            for j in range(i + 1, len(adj[n])):", "            for j in range(i + 1, len(adj[n]) - 1):", "L-PAIRS"),
    B("c10-id-table-gap", "C10", PROJ, "        obj_to_id[edge] = \"E\" + str(idx)\n        id_to_obj[\"E\" + str(idx)] = edge", "        obj_to_id[edge] = \"E\" + str(idx)\n        id_to_obj[\"E\" + str(idx + 1)] = edge", "K-VID"),
    B("c10-simplex-raw", "C10", SIMP, "            subset = tuple(sorted(subset))\n", "            subset = tuple(subset)\n", "S-CANON"),
    # ------------------------------------------------------------------ C12
    B("c12-indegree-targets", "C12", DDEG, "    return len(list(hypergraph.get_source_edges(node, order=order, size=size)))", "    return len(list(hypergraph.get_target_edges(node, order=order, size=size)))", "K-ROLE"),
    B("c12-signature-transposed", "C12", SIG, "        source_size = len(hyperedge[0])\n        target_size = len(hyperedge[1])", "        source_size = len(hyperedge[1])\n        target_size = len(hyperedge[0])", "K-ROLE"),
    B("c12-signature-unbounded", "C12", SIG, "hypergraph.get_edges(size=max_hyperedge_size, up_to=True)", "hypergraph.get_edges()", "B-BOUND"),
    B("c12-reach-before-guard", "C12", REC, "    for edge in edges:\n        size = len(edge[0]) + len(edge[1])\n        if 2 <= size <= max_hyperedge_size:\n            tot[size] += 1\n            edge_tuple = (tuple(edge[0]), tuple(edge[1]))\n            edge_set[edge_tuple] = 1\n\n            # Track reachable nodes for each head node", "    for edge in edges:\n        size = len(edge[0]) + len(edge[1])\n        for node in edge[0]:\n            node_reach.setdefault(node, set()).update(edge[1])\n        if 2 <= size <= max_hyperedge_size:\n            tot[size] += 1\n            edge_tuple = (tuple(edge[0]), tuple(edge[1]))\n            edge_set[edge_tuple] = 1\n\n            # Track reachable nodes for each head node", "G-DOM"),
    B("c12-ratio-unguarded", "C12", REC, "        if tot[size] != 0:\n            rec[size] = rec[size] / tot[size]\n        else:\n            rec[size] = 0\n\n    return rec\n\n\ndef strong", "        rec[size] = rec[size] / tot[size]\n\n    return rec\n\n\ndef strong", "G-RATIO"),
    # ------------------------------------------------------------------ C13
    B("c13-capacity-cross", "C13", CM, "            elif len(g1) < len(f1):\n                g1.append(v)", "            elif len(g1) < len(f2):\n                g1.append(v)", "P-GUARDCAP"),
    B("c13-append-both", "C13", CM, "                if np.random.rand() < 0.5:\n                    g1.append(v)\n                else:\n                    g2.append(v)", "                if np.random.rand() < 0.5:\n                    g1.append(v)\n                g2.append(v)", "P-LINEAR"),
    B("c13-writeback-swapped", "C13", CM, "            c_new[i] = sorted(g1)\n            c_new[j] = sorted(g2)", "            c_new[i] = sorted(g2)\n            c_new[j] = sorted(g1)", "P-WRITEBACK"),
    B("c13-complement-eq", "C13", CM, "        if len(e) != size:\n            shuffled.add_edge(e)", "        if len(e) > size:\n            shuffled.add_edge(e)", "M-COMPLEMENT"),
    B("c13-swap-no-refusal", "C13", DCM, "        if node2 in source1 or node1 in source2:\n            continue\n", "        if node2 in source1:\n            continue\n", "P-SWAP"),
    # ------------------------------------------------------------------ C14
    B("c14-unseeded-module", "C14", RND, "            edges.append(tuple(sorted(random.sample(nodes, size))))", "            edges.append(tuple(sorted(np.random.choice(nodes, size, replace=False))))", "R-GLOBAL"),
    B("c14-seed-not-forwarded", "C14", RND, "    return random_hypergraph(num_nodes, {size: num_edges}, seed)", "    return random_hypergraph(num_nodes, {size: num_edges})", "R-GLOBAL"),
    B("c14-inplace-ignored", "C14", RND, "        h = hg.copy()\n        h.add_edge(edge)\n        return h", "        h = hg\n        h.add_edge(edge)\n        return h", "E-INPLACE"),
    B("c14-none-compare", "C14", SF, "    if corr_target is not None and (corr_target < 0 or corr_target > 1):", "    if corr_target < 0 or corr_target > 1:", "N-NONECMP"),
    B("c14-truthy-seed", "C14", RND, "    if seed is not None:\n        random.seed(seed)\n    h = Hypergraph()", "    if seed:\n        random.seed(seed)\n    h = Hypergraph()", "M-NONE"),
    # ------------------------------------------------------------------ C15
    B("c15-rescale-fixed-u", "C15", MMSBM, "        if not fixed_w:\n            self.w = self.w / self.C()\n        elif not fixed_u:\n            self.u = self.u / np.sqrt(self.C())", "        if not fixed_w:\n            self.w = self.w / self.C()\n        else:\n            self.u = self.u / np.sqrt(self.C())", "E-FIXED"),
    B("c15-update-inplace", "C15", MMSBM, "        return numerator / (denominator + self.u_prior)", "        u *= np.matmul(first_addend - second_addend, w) / (denominator + self.u_prior)\n        return u", "E-NOINPLACE"),
    # ------------------------------------------------------------------ C16
    B("c16-model-unseeded", "C16", SAMP, "            seed=seed,\n        )", "        )", "R-SEEDED"),
    B("c16-missing-attr", "C16", SAMP, "self._rng.integers(2, self._model.max_hye_size + 1)", "self._rng.integers(2, self.model.max_hye_size + 1)", "C-ATTR"),
    B("c16-global-draw", "C16", SAMP, "        if self._rng.random() < transition_prob:", "        if np.random.random() < transition_prob:", "R-GLOBAL"),
    B("c16-filter-mismatch", "C16", SAMP, "            hye_list = [hye_list[idx] for idx in nonzero]", "            hye_list = [hye for hye in hye_list]", "Y-WEIGHTED"),
    B("c16-fallback-taken", "C16", SAMP, "weights = sample_truncated_poisson(poisson_mean, self._rng).astype(int)", "weights = sample_truncated_poisson(poisson_mean).astype(int)", "R-FALLBACK"),
    # ------------------------------------------------------------------ C17
    B("c17-getnnz", "C17", SC, "np.where(np.diff(self.incidence.indptr) == 0)", "np.where(self.incidence.getnnz(1) == 0)", "C-EXT"),
    B("c17-global-perm", "C17", MT, "        perm = self.prng.permutation(range(self.N))", "        perm = np.random.permutation(range(self.N))", "R-GLOBAL"),
    B("c17-kmeans-unseeded", "C17", SC, "            n_clusters=self.K, random_state=seed, n_init=self.n_realizations", "            n_clusters=self.K, n_init=self.n_realizations", "R-SEEDED"),
    B("c17-rows-arange", "C17", SC, "        for idx, i in enumerate(self.non_isolates):\n            X_pred[i, y_pred[idx]] = 1", "        for idx, i in enumerate(self.non_isolates):\n            X_pred[idx, y_pred[idx]] = 1", "I-ROWS"),
    # ------------------------------------------------------------------ C18
    B("c18-read-new", "C18", CONT, "                    if I_old[neigh] == 1 and np.random.random() < beta:", "                    if I_new[neigh] == 1 and np.random.random() < beta:", "E-DBUF"),
    B("c18-alias-buffers", "C18", CONT, "        I_new = I_old.copy()\n\n        # We run over the nodes", "        I_new = I_old\n\n        # We run over the nodes", "E-DBUF"),
    B("c18-asymmetric", "C18", RW, "                T[l[j], l[i]] += len(l) - 1", "                T[l[j], l[i]] += len(l)", "D-SYM"),
    B("c18-density-left", "C18", RW, "        s = s @ K", "        s = K @ s", "D-STEP"),
    B("c18-triads-order1", "C18", CONT, "triplets = hypergraph.get_incident_edges(node, order=2)", "triplets = hypergraph.get_incident_edges(node, order=1)", "D-ORDER"),
    # ------------------------------------------------------------------ C19
    B("c19-any-instead-of-all", "C19", FILT, "        return all(metadata.get(attr) in values for attr, values in criteria.items())", "        return any(metadata.get(attr) in values for attr, values in criteria.items())", "Q-PRED"),
    B("c19-keep-edges-dropped", "C19", FILT, "            hypergraph.remove_node(node, keep_edges=keep_edges)", "            hypergraph.remove_node(node)", "F-FWD"),
    B("c19-edge-predicate-asym", "C19", FILT, "            matches = matches_criteria(edge_metadata, edge_criteria)\n            if (mode == \"keep\" and not matches) or (mode == \"remove\" and matches):", "            matches = matches_criteria(edge_metadata, edge_criteria)\n            if (mode == \"keep\" and matches) or (mode == \"remove\" and matches):", "Q-PRED"),
    B("c19-weight-once", "C19", SVH, "        for _ in range(w):", "        for _ in range(1):", "V-MULT"),
    OKV("c19-benign-demorgan", "C19", FILT, "            matches = matches_criteria(node_metadata, node_criteria)\n            if (mode == \"keep\" and not matches) or (mode == \"remove\" and matches):", "            matches = matches_criteria(node_metadata, node_criteria)\n            if not ((mode != \"keep\" or matches) and (mode != \"remove\" or not matches)):"),
    # ------------------------------------------------------------------ C20
    B("c20-s-dropped", "C20", SCEN, "        lg, id_to_edge = line_graph(hypergraph, s=s)\n        b = nx.closeness_centrality(lg)", "        lg, id_to_edge = line_graph(hypergraph)\n        b = nx.closeness_centrality(lg)", "F-USE"),
    B("c20-wrong-functional", "C20", SCEN, "    lg, id_to_edge = line_graph(H, s=s)\n    c = nx.closeness_centrality(lg)", "    lg, id_to_edge = line_graph(H, s=s)\n    c = nx.betweenness_centrality(lg)", "D-DELEG"),
    B("c20-label-tested", "C20", SCEN, "    return {k: v / T for k, v in res.items()}\n\n\ndef s_closenness_nodes_averaged", "    return {k: v / T for k, v in res.items() if \"E\" not in k}\n\n\ndef s_closenness_nodes_averaged", "K-VID"),
    B("c20-wrong-divisor", "C20", SCEN, "    subhypergraphs = H.subhypergraph()\n    T = len(subhypergraphs)\n    res = dict()\n    for hypergraph in subhypergraphs.values():\n        lg, id_to_edge = line_graph(hypergraph, s=s)\n        b = nx.betweenness_centrality(lg)", "    subhypergraphs = H.subhypergraph()\n    T = len(H.get_nodes())\n    res = dict()\n    for hypergraph in subhypergraphs.values():\n        lg, id_to_edge = line_graph(hypergraph, s=s)\n        b = nx.betweenness_centrality(lg)", "D-AVG"),
]


# ---------------------------------------------------------------------- round-4 rules: breaking and accepted spellings
MUTANTS += [
    # F-FWD up_to
    B("c02-getweights-size-no-upto", "C02", D, "        if size is not None:\n            order = size - 1\n\n        if w is None:\n            w = {\n                edge: self._weights[self._edge_list[edge]]\n                for edge in self.get_edges(order=order, up_to=up_to)\n            }", "        if w is None and size is not None:\n            w = {edge: self._weights[self._edge_list[edge]] for edge in self.get_edges(size=size)}\n\n        if w is None:\n            w = {\n                edge: self._weights[self._edge_list[edge]]\n                for edge in self.get_edges(order=order, up_to=up_to)\n            }", "F-FWD"),
    OKV("c02-benign-getweights-size-upto", "C02", D, "        if size is not None:\n            order = size - 1\n\n        if w is None:\n            w = {\n                edge: self._weights[self._edge_list[edge]]\n                for edge in self.get_edges(order=order, up_to=up_to)\n            }", "        if w is None and size is not None:\n            w = {edge: self._weights[self._edge_list[edge]] for edge in self.get_edges(size=size, up_to=up_to)}\n\n        if w is None:\n            w = {\n                edge: self._weights[self._edge_list[edge]]\n                for edge in self.get_edges(order=order, up_to=up_to)\n            }"),
    # Q-ISO
    B("c03-isolated-by-incidence", "C03", T, "    def isolated_nodes(self, size=None, order=None):\n        from hypergraphx.utils.cc import isolated_nodes\n", "    def isolated_nodes(self, size=None, order=None):\n        if size is None and order is None:\n            return [node for node in self.get_nodes() if not self._adj[node]]\n        from hypergraphx.utils.cc import isolated_nodes\n", "Q-ISO"),
    OKV("c03-benign-isolated-by-neighbours", "C03", T, "    def isolated_nodes(self, size=None, order=None):\n        from hypergraphx.utils.cc import isolated_nodes\n", "    def isolated_nodes(self, size=None, order=None):\n        if size is None and order is None:\n            return [node for node in self.get_nodes() if len(self.get_neighbors(node)) == 0]\n        from hypergraphx.utils.cc import isolated_nodes\n"),
    # L-ORDERED
    B("c10-directed-visited-unordered", "C10", PROJ, "    for edge1 in h.get_edges():\n        for edge2 in h.get_edges():\n            if edge1 != edge2:\n                source = set(edge1[1])", "    seen = set()\n    for edge1 in h.get_edges():\n        for edge2 in h.get_edges():\n            if edge1 != edge2 and frozenset((edge_to_id[edge1], edge_to_id[edge2])) not in seen:\n                seen.add(frozenset((edge_to_id[edge1], edge_to_id[edge2])))\n                source = set(edge1[1])", "L-ORDERED"),
    OKV("c10-benign-directed-visited-ordered", "C10", PROJ, "    for edge1 in h.get_edges():\n        for edge2 in h.get_edges():\n            if edge1 != edge2:\n                source = set(edge1[1])", "    seen = set()\n    for edge1 in h.get_edges():\n        for edge2 in h.get_edges():\n            if edge1 != edge2 and (edge_to_id[edge1], edge_to_id[edge2]) not in seen:\n                seen.add((edge_to_id[edge1], edge_to_id[edge2]))\n                source = set(edge1[1])"),
    # B-BOUND exact table
    B("c12-signature-per-side-bound", "C12", SIG, "    for hyperedge in hypergraph.get_edges(size=max_hyperedge_size, up_to=True):\n        source_size = len(hyperedge[0])\n        target_size = len(hyperedge[1])\n", "    for hyperedge in hypergraph.get_edges():\n        source_size = len(hyperedge[0])\n        target_size = len(hyperedge[1])\n        if source_size >= max_hyperedge_size or target_size >= max_hyperedge_size:\n            continue\n", "B-BOUND"),
    OKV("c12-benign-signature-total-bound", "C12", SIG, "    for hyperedge in hypergraph.get_edges(size=max_hyperedge_size, up_to=True):\n        source_size = len(hyperedge[0])\n        target_size = len(hyperedge[1])\n", "    for hyperedge in hypergraph.get_edges():\n        source_size = len(hyperedge[0])\n        target_size = len(hyperedge[1])\n        if source_size + target_size > max_hyperedge_size:\n            continue\n"),
    # D-DISTINCT
    B("c14-scalefree-dedup-raw", "C14", SF, "            edge = tuple(sorted(edge))\n            edges.add(edge)", "            edges.add(tuple(edge))", "D-DISTINCT"),
    OKV("c14-benign-scalefree-dedup-inline", "C14", SF, "            edge = tuple(sorted(edge))\n            edges.add(edge)", "            edges.add(tuple(sorted(edge)))"),
    # D-TRIAD
    B("c18-triad-pairwise-set", "C18", CONT, "                neighbors = hypergraph.get_neighbors(node, order=1)\n                for neigh in neighbors:\n                    if I_old[neigh] == 1 and np.random.random() < beta:\n                        I_new[node] = 1\n                        break  # if the susceptile node gets infected, we stop iterating over its neighbors\n                if I_new[node] == 1:\n                    continue  # if the susceptile node is already infected, we don't run the three-body processes\n                # we run the three-body infections\n                triplets = hypergraph.get_incident_edges(node, order=2)\n                for triplet in triplets:\n                    neighbors = list(triplet)\n                    neighbors.remove(node)\n                    neigh1, neigh2 = tuple(neighbors)\n                    if (\n                        I_old[neigh1] == 1\n                        and I_old[neigh2] == 1", "                neighbors = hypergraph.get_neighbors(node, order=1)\n                infected = {x for x in neighbors if I_old[x] == 1}\n                for neigh in neighbors:\n                    if I_old[neigh] == 1 and np.random.random() < beta:\n                        I_new[node] = 1\n                        break  # if the susceptile node gets infected, we stop iterating over its neighbors\n                if I_new[node] == 1:\n                    continue  # if the susceptile node is already infected, we don't run the three-body processes\n                # we run the three-body infections\n                triplets = hypergraph.get_incident_edges(node, order=2)\n                for triplet in triplets:\n                    neighbors = list(triplet)\n                    neighbors.remove(node)\n                    neigh1, neigh2 = tuple(neighbors)\n                    if (\n                        neigh1 in infected\n                        and neigh2 in infected", "D-TRIAD"),
    # K-VID vertex per node
    OKV("c20-benign-bipartite-nodes-first-comprehension", "C20", PROJ, "    for node in h.get_nodes():\n        id_to_obj[\"N\" + str(idx)] = node\n        obj_to_id[node] = \"N\" + str(idx)\n        idx += 1\n        g.add_node(obj_to_id[node], bipartite=0)", "    for idx, node in enumerate(h.get_nodes()):\n        id_to_obj[\"N\" + str(idx)] = node\n        obj_to_id[node] = \"N\" + str(idx)\n        g.add_node(obj_to_id[node], bipartite=0)"),
    # I-POP
    B("c17-psi-count-nonisolates", "C17", MT, "            Nk = np.count_nonzero(u0[:, k])", "            Nk = self.non_isolates.shape[0]", "I-POP"),
    OKV("c17-benign-psi-count-rows", "C17", MT, "            Nk = np.count_nonzero(u0[:, k])", "            Nk = int(np.count_nonzero(u0[:, k] != 0))"),
    # B-MAXSIZE
    B("c16-extra-size-uncapped", "C16", SAMP, "                    hye_size = self._rng.integers(2, self._model.max_hye_size + 1)", "                    hye_size = self._rng.integers(2, available_nodes + 1)", "B-MAXSIZE"),
    OKV("c16-benign-extra-size-alias", "C16", SAMP, "                    hye_size = self._rng.integers(2, self._model.max_hye_size + 1)", "                    size_cap = self._model.max_hye_size\n                    hye_size = self._rng.integers(2, size_cap + 1)"),
    # E-FIXED max_hye_size
    B("c15-maxsize-overwritten", "C15", MMSBM, "        if self.max_hye_size is None:\n            self.max_hye_size = max_hye_size_data\n        else:\n            if self.max_hye_size < max_hye_size_data:", "        self.max_hye_size, supplied = max_hye_size_data, self.max_hye_size\n        if supplied is not None:\n            if supplied < max_hye_size_data:", "E-FIXED"),
    # S-HIF
    B("c06-hif-incidence-raw-key", "C06", "hypergraphx/readwrite/hif.py", "        H.set_incidence_metadata(tuple(sorted(tmp_edges[edge])), node, incidence)", "        H.set_incidence_metadata(tuple(tmp_edges[edge]), node, incidence)", "S-HIF"),
    # E-FRESHCOPY snapshot
    B("c05-copy-from-snapshot", "C05", H, "        return copy.deepcopy(self)\n\n    def __str__", "        h = Hypergraph(weighted=self._weighted)\n        h.populate_from_dict(copy.deepcopy(self.expose_data_structures()))\n        return h\n\n    def __str__", "E-FRESHCOPY"),
    # captured references
    B("c04-aggregate-updates-lent-metadata", "C04", M, "            _edge, layer = edge\n            h.add_edge(", "            _edge, layer = edge\n            if h.check_edge(_edge):\n                h.get_edge_metadata(_edge).update(self.get_edge_metadata(_edge, layer))\n            h.add_edge(", "E-PURE"),
    OKV("c04-benign-aggregate-updates-own-copy", "C04", M, "            _edge, layer = edge\n            h.add_edge(", "            _edge, layer = edge\n            if h.check_edge(_edge):\n                merged = dict(h.get_edge_metadata(_edge))\n                merged.update(self.get_edge_metadata(_edge, layer))\n            h.add_edge("),
]


# ---------------------------------------------------------------------- round-5 rules: breaking and accepted spellings
STAT = "hypergraphx/filters/statistical_filters.py"
MUTANTS += [
    # B-SCANBREAK
    B("c03-window-scan-breaks-on-size", "C03", T, "                if time_window[0] <= _t < time_window[1]:\n                    edges.append((_t, _edge))", "                if time_window[0] <= _t < time_window[1] and (size is None or len(_edge) == size):\n                    edges.append((_t, _edge))\n                elif edges:\n                    break", "B-SCANBREAK"),
    OKV("c03-benign-window-scan-breaks-on-time", "C03", T, "                if time_window[0] <= _t < time_window[1]:\n                    edges.append((_t, _edge))", "                if _t >= time_window[1]:\n                    break\n                if time_window[0] <= _t:\n                    edges.append((_t, _edge))"),
    # L-PREFILTER
    B("c20-linegraph-prefilter-strict", "C20", PROJ, "        adj[node] = h.get_incident_edges(node)", "        adj[node] = [e for e in h.get_incident_edges(node) if len(e) > s]", "L-PREFILTER"),
    OKV("c20-benign-linegraph-prefilter", "C20", PROJ, "        adj[node] = h.get_incident_edges(node)", "        adj[node] = [e for e in h.get_incident_edges(node) if len(e) >= s]"),
    # V-STEPUP
    B("c19-stepup-count", "C19", STAT, "            fdr = k[ps < k][-1]", "            fdr = k[np.count_nonzero(ps < k) - 1]", "V-STEPUP", count=2),
    # N-VECTYPE
    B("c15-logbinomial-int-shortcut", "C15", MMSBM, "    return np.log(np.arange(n - k + 1, n + 1)).sum() - np.log(np.arange(1, k + 1)).sum()", "    if k == 0:\n        return 0\n    return np.log(np.arange(n - k + 1, n + 1)).sum() - np.log(np.arange(1, k + 1)).sum()", "N-VECTYPE"),
    OKV("c15-benign-logbinomial-float-shortcut", "C15", MMSBM, "    return np.log(np.arange(n - k + 1, n + 1)).sum() - np.log(np.arange(1, k + 1)).sum()", "    if k == 0:\n        return 0.0\n    return np.log(np.arange(n - k + 1, n + 1)).sum() - np.log(np.arange(1, k + 1)).sum()"),
    # S-LOADARGS weighted-from-header
    B("c06-weighted-from-edge-records", "C06", LOAD, "                weighted = hypergraph_metadata.get(\"weighted\", False)\n                if hypergraph_type == \"Hypergraph\":", "                weighted = any(\"weight\" in e[\"metadata\"] for e in edges)\n                if hypergraph_type == \"Hypergraph\":", "S-LOADARGS"),
    # POS vs EID
    B("c12-degree-sequence-positions", "C12", "hypergraphx/measures/directed/degree.py", "    return {\n        node: in_degree(hg, node, order=order, size=size) for node in hg.get_nodes()\n    }", "    if size is None:\n        return {node: in_degree(hg, node, order=order, size=size) for node in hg.get_nodes()}\n    wanted = {i for i, s_ in enumerate(hg.get_sizes()) if s_ == size}\n    adj = hg.get_adj_dict(\"source\")\n    return {node: sum(1 for e_id in adj[node] if e_id in wanted) for node in hg.get_nodes()}", "K-MEM"),
]


# ---------------------------------------------------------------------- rules of seed rounds j / k: breaking and accepted spellings
MUTANTS += [
    # P-NODE existing: the metadata argument confined to the creation branch
    B("c02-add-node-metadata-only-when-new", "C02", D, "            self._node_metadata[node] = {}\n        if self._node_metadata[node] == {}:\n            self._node_metadata[node] = metadata", "            self._node_metadata[node] = metadata", "P-NODE"),
    # P-EMETA: re-insertion of an existing hyperedge keeps the old metadata
    B("c01-add-edge-existing-keeps-metadata", "C01", H, "\n            if metadata is not None:\n                self._edge_metadata[self._edge_list[edge]] = metadata", "", "P-EMETA"),
    # P-REINSERT metadata-carried: presence judged on the node set alone
    B("c03-reinsert-metadata-withheld-by-node-set", "C03", T, "                        weight=weight,\n                        metadata=metadata,\n                    )", "                        weight=weight,\n                        metadata=None if len(self.get_times_for_edge(updated_edge)) > 0 else metadata,\n                    )", "P-REINSERT"),
    # E-SHARED loop-shared
    B("c12-strong-reciprocity-shared-default", "C12", REC, "            for node in edge[0]:\n                if node not in node_reach:\n                    node_reach[node] = set(edge[1])\n                else:\n                    node_reach[node] = node_reach[node].union(set(edge[1]))", "            targets = set(edge[1])\n            for node in edge[0]:\n                node_reach.setdefault(node, targets).update(targets)", "E-SHARED"),
    OKV("c12-benign-strong-reciprocity-fresh-default", "C12", REC, "            for node in edge[0]:\n                if node not in node_reach:\n                    node_reach[node] = set(edge[1])\n                else:\n                    node_reach[node] = node_reach[node].union(set(edge[1]))", "            targets = set(edge[1])\n            for node in edge[0]:\n                node_reach.setdefault(node, set()).update(targets)"),
    # Y-SWAPPAIR
    B("c16-mcmc-write-back-per-slot", "C16", SAMP, "            hye_list[idx1] = set(new_hye1)\n            hye_list[idx2] = set(new_hye2)", "            if set(new_hye1) not in hye_list:\n                hye_list[idx1] = set(new_hye1)\n            if set(new_hye2) not in hye_list:\n                hye_list[idx2] = set(new_hye2)", "Y-SWAPPAIR"),
    OKV("c16-benign-mcmc-write-back-together", "C16", SAMP, "            hye_list[idx1] = set(new_hye1)\n            hye_list[idx2] = set(new_hye2)", "            replacement = (set(new_hye1), set(new_hye2))\n            hye_list[idx1] = replacement[0]\n            hye_list[idx2] = replacement[1]"),
    # Q-ISO on the module-level functions
    B("c08-cc-is-isolated-by-incidence", "C08", CC, "    return len(list(hg.get_neighbors(node, order=order, size=size))) == 0", "    return len(hg.get_incident_edges(node, order=order, size=size)) == 0", "Q-ISO"),
    # M-COMPLEMENT size-known
    B("c13-complement-size-none", "C13", CM, "    if size is None:\n        size = order + 1\n", "", "M-COMPLEMENT"),
    # N-LAGRANGE
    B("c17-lagrange-extra-regulariser", "C17", MT, "self.u[i, ks] = u_tmp / (lambda_i + u_tmp_den)", "self.u[i, ks] = u_tmp / (self.gammaU + lambda_i + u_tmp_den)", "N-LAGRANGE"),
    OKV("c17-benign-lagrange-commuted", "C17", MT, "self.u[i, ks] = u_tmp / (lambda_i + u_tmp_den)", "self.u[i, ks] = u_tmp / (u_tmp_den + lambda_i)"),
    # I-DENSESIZES
    B("c17-size-lists-over-observed-sizes", "C17", MT, "for d in np.arange(2, np.max(HyeId2D + 1))", "for d in np.unique(HyeId2D)", "I-DENSESIZES"),
    # S-RESERVED: reserved key written only when the metadata lacks it
    B("c06-reserved-weight-unless-present", "C06", SAVE, "                if weighted:\n                    metadata[\"weight\"] = hypergraph.get_weight(edge)\n", "                if weighted and \"weight\" not in metadata:\n                    metadata[\"weight\"] = hypergraph.get_weight(edge)\n", "S-RESERVED"),
]


# ---------------------------------------------------------------------- rules of seed rounds l / sa
MUTANTS += [
    # P-IDMONO: the id counter handed back on removal
    B("c01-remove-edge-hands-id-back", "C01", H, "        del self._weights[self._edge_list[edge]]\n        del self._edge_list[edge]\n", "        del self._weights[self._edge_list[edge]]\n        del self._edge_list[edge]\n        self._next_edge_id = len(self._edge_list)\n", "P-IDMONO"),
    # M-NONE on mutators: an explicit {} treated like an omitted argument
    B("c04-add-edge-metadata-truthiness", "C04", M, "        if metadata is not None:\n            self._edge_metadata[e_id] = metadata\n", "        if metadata:\n            self._edge_metadata[e_id] = metadata\n", "M-NONE"),
    # S-HASHFIELDS record:always
    B("c07-hash-skips-nodes-without-metadata", "C07", H, "            nodes.append({\"node\": node, \"metadata\": self._node_metadata[node]})", "            if self._node_metadata[node]:\n                nodes.append({\"node\": node, \"metadata\": self._node_metadata[node]})", "S-HASHFIELDS"),
    # G-TRISTATE
    B("c16-matching-flag-truthiness", "C16", SAMP, "        if self.matching_sequences is None:\n", "        if not self.matching_sequences:\n", "G-TRISTATE"),
    # G-PYTRAP: identity of node labels
    B("c01-remove-node-identity-filter", "C01", H, "tuple(sorted([n for n in edge if n != node]))", "tuple(sorted([n for n in edge if n is not node]))", "G-PYTRAP"),
    OKV("c01-benign-remove-node-not-equal", "C01", H, "tuple(sorted([n for n in edge if n != node]))", "tuple(sorted([n for n in edge if not n == node]))"),
    # D-ROWALIGN
    B("c18-stationary-state-from-dict-values", "C18", RW, "    K = np.array(transition_matrix(HG).todense())\n    stationary_state = np.linalg.solve(np.eye(K.shape[0]) - K.T, np.ones(K.shape[0]))\n", "    strength = {node: 0 for node in HG.get_nodes()}\n    for l in HG.get_edges():\n        for node in l:\n            strength[node] += (len(l) - 1) ** 2\n    stationary_state = np.array(list(strength.values()), dtype=float)\n", "D-ROWALIGN"),
]

# ---------------------------------------------------------------------- rules of seed round sb
MUTANTS += [
    # K-KEY of the insertion primitive, from C07: the membership test on the un-sorted tuple
    B("c07-add-edge-looks-up-unsorted-key", "C07", H, "        edge = tuple(sorted(edge))\n        order = len(edge) - 1\n\n        if edge not in self._edge_list:\n", "        edge = tuple(edge)\n\n        if edge not in self._edge_list:\n            edge = tuple(sorted(edge))\n", "K-KEY"),
    # M-ROWMAP: rows numbered by the sub-hypergraph's encoder, mapping of the parent
    B("c09-by-order-returns-parent-mapping", "C09", LIN, "        return_mapping=True,\n    )\n\n    incidence = binary_incidence.multiply(hypergraph.get_weights(order=order)).tocsr()\n", "        return_mapping=True,\n    )\n    if keep_isolated_nodes:\n        mapping = get_inverse_mapping(hypergraph.get_mapping())\n\n    incidence = binary_incidence.multiply(hypergraph.get_weights(order=order)).tocsr()\n", "M-ROWMAP"),
    # I-SCRATCH: psiBarOmega recomputed on one branch only
    B("c17-psibar-only-for-non-isolates", "C17", MT, "            self._update_psiBarOmega(i)\n\n            if i not in self.isolates:\n", "            if i not in self.isolates:\n                self._update_psiBarOmega(i)\n", "I-SCRATCH"),
    # V-PERSIZE: the threshold of an earlier size carried over
    B("c19-fdr-threshold-carried-over", "C19", SVH, '    links = 0\n    links_order = {}\n    for order in sorted(pvalues):\n        n_a = len(set(np.concatenate(list(pvalues[order].keys()))))\n        n_possible = binom(n_a, order)\n        bonf = 0.01 / n_possible\n\n        temp_df = pd.DataFrame(pvalues[order].items())\n        temp_df.columns = ["edge", "pvalue"]\n        ps = np.sort(temp_df.pvalue)\n        k = np.arange(1, len(ps) + 1) * bonf\n        try:\n            fdr = k[ps < k][-1]\n        except:\n            fdr = 0\n        temp_df["fdr"] = temp_df["pvalue"] < fdr\n', '    fdr = 0\n    for order in sorted(pvalues):\n        n_a = len(set(np.concatenate(list(pvalues[order].keys()))))\n        n_possible = binom(n_a, order)\n        bonf = 0.01 / n_possible\n\n        temp_df = pd.DataFrame(pvalues[order].items())\n        temp_df.columns = ["edge", "pvalue"]\n        ps = np.sort(temp_df.pvalue)\n        k = np.arange(1, len(ps) + 1) * bonf\n        passing = k[ps < k]\n        if len(passing) > 0:\n            fdr = passing[-1]\n        temp_df["fdr"] = temp_df["pvalue"] < fdr\n', "V-PERSIZE"),
]

# ---------------------------------------------------------------------- rules of seed round sc
MUTANTS += [
    # P-REINSERT always, re-insertion before the removal (Hypergraph.remove_node)
    B("c01-shrink-skips-existing-key", "C01", H, "                self.add_edge(\n                    tuple(sorted([n for n in edge if n != node])),\n                    weight=self.get_weight(edge),\n                    metadata=self.get_edge_metadata(edge),\n                )\n", "                reduced = tuple(sorted([n for n in edge if n != node]))\n                if reduced not in self._edge_list:\n                    self.add_edge(\n                        reduced,\n                        weight=self.get_weight(edge),\n                        metadata=self.get_edge_metadata(edge),\n                    )\n", "P-REINSERT"),
    # X-NODES: a parameter that selects among the nodes is not the requested node list
    B("c05-keep-isolated-means-isolated", "C05", H, "            h.add_nodes(list(self.get_nodes()))", "            h.add_nodes(self.isolated_nodes(size=size))", "X-NODES"),
    # M-COMPLEMENT size-known through `len(e) - 1 != order`
    B("c13-complement-by-order", "C13", CM, "        if len(e) != size:\n            shuffled.add_edge(e)", "        if len(e) - 1 != order:\n            shuffled.add_edge(e)", "M-COMPLEMENT"),
    # G-ARGSWAP
    B("c15-updates-get-swapped-arguments", "C15", MMSBM, "self._w_update(binary_incidence, hye_weights)", "self._w_update(hye_weights, binary_incidence)", "G-ARGSWAP"),
]

# ---------------------------------------------------------------------- rules of seed round sd
MUTANTS += [
    # F-USE keep_isolated:all-nodes
    B("c10-keep-isolated-only-degree-zero", "C10", PROJ, "        for node in h.get_nodes():\n            g.add_node(node)\n", "        for node in h.get_nodes():\n            if h.degree(node) == 0:\n                g.add_node(node)\n", "F-USE"),
    # Y-DYADONCE: De Morgan slip on the guard of the fixed hyperedges
    B("c16-fixed-pairs-when-one-sequence-given", "C16", SAMP, "        if sample_deg_seq and sample_dim_seq and self.exact_dyadic_sampling:", "        if (sample_deg_seq or sample_dim_seq) and self.exact_dyadic_sampling:", "Y-DYADONCE"),
    # P-ACCUM whatever-the-metadata (Hypergraph.add_edge)
    B("c01-merge-skipped-when-metadata-given", "C01", H, "            if self._weighted:\n                self._weights[self._edge_list[edge]] += weight\n            if metadata is not None:\n", "            if metadata is None and self._weighted:\n                self._weights[self._edge_list[edge]] += weight\n            if metadata is not None:\n", "P-ACCUM"),
    # E-LIVEITER from C07
    B("c07-directed-remove-node-walks-live-list", "C07", D, "            target_edges = self.get_target_edges(node)\n            source_edges = self.get_source_edges(node)\n            for edge in source_edges:\n                self.remove_edge(edge)\n            for edge in target_edges:\n                self.remove_edge(edge)\n", "            for e_idx in self._adj_source[node]:\n                self.remove_edge(self._reverse_edge_list[e_idx])\n            for e_idx in self._adj_target[node]:\n                self.remove_edge(self._reverse_edge_list[e_idx])\n", "E-LIVEITER"),
]

# ---------------------------------------------------------------------- rules of seed round se
MUTANTS += [
    # P-ACCUM omitted-weight-is-1
    B("c01-omitted-weight-leaves-existing-weight", "C01", H, "            if self._weighted:\n                self._weights[self._edge_list[edge]] += weight\n            if metadata is not None:\n", "            if self._weighted and weight is not None:\n                self._weights[self._edge_list[edge]] += weight\n            if metadata is not None:\n", "P-ACCUM"),
    # Q-STRONG: crossed quantifier
    B("c12-strong-every-target-points-back", "C12", REC, "        if set(source).issubset(covered):", "        if all(node in node_reach and not set(source).isdisjoint(node_reach[node]) for node in target):", "Q-STRONG"),
    # D-SYM size-1: the increment reads the weight
    B("c18-transition-rates-read-weights", "C18", RW, "                T[l[i], l[j]] += len(l) - 1\n                T[l[j], l[i]] += len(l) - 1\n", "                T[l[i], l[j]] += (len(l) - 1) * HG.get_weight(l)\n                T[l[j], l[i]] += (len(l) - 1) * HG.get_weight(l)\n", "D-SYM"),
    # K-ROLEMEM
    B("c07-skip-targets-by-source-sets", "C07", D, "            for edge in target_edges:\n                self.remove_edge(edge)\n", "            handled = {edge[0] for edge in source_edges}\n            for edge in target_edges:\n                if edge[1] in handled:\n                    continue\n                self.remove_edge(edge)\n", "K-ROLEMEM"),
]

# ---------------------------------------------------------------------- rules of seed round sf
MUTANTS += [
    # M-SWEEP: the window sweep over the edge index in insertion order
    B("c03-aggregate-sweeps-insertion-order", "C03", T, "        sorted_edges = sorted(self.get_edges())", "        sorted_edges = list(self.get_edges())", "M-SWEEP"),
    # D-SYNC: recoveries written into the state that is read for the neighbours
    B("c18-recovery-written-into-old-state", "C18", CONT, "                I_new[node] = 0\n", "                I_old[node] = 0\n", "D-SYNC"),
    # E-INPLACE edits-only
    B("c14-add-random-edges-replaces-state", "C14", RND, "    if inplace:\n        hg.add_edges(list(edges))\n    else:\n        h = hg.copy()\n        h.add_edges(list(edges))\n        return h", "    h = hg.copy()\n    h.add_edges(list(edges))\n    if inplace:\n        hg.populate_from_dict(h.expose_data_structures())\n    else:\n        return h", "E-INPLACE"),
]


def for_property(prop: str) -> List[Mutant]:
    return [m for m in MUTANTS if m.prop == prop]

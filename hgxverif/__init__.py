"""hgxverif: static checks for the hypergraphx properties (see /verif/DESIGN.md)."""

import warnings as _w

# the analysed sources contain docstrings with invalid escape sequences; parsing them must not clutter the verdict
_w.filterwarnings("ignore", category=SyntaxWarning)

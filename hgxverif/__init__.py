"""hgxverif: static checks for the hypergraphx properties (see /verif/DESIGN.md)."""

"""Effects, aliases and borrowed references (DESIGN 2.C).

Abstract values: Ref(root, level)  - level 0: the very object reachable from `root` (an internal table, a
metadata dict, ...); level 1: a fresh container whose *values* are such internal objects.  Everything else is
"clean" (fresh or immutable).  A store / `del` / mutator-method call through a level-0 reference is a mutation
of `root`; passing it to a callee that mutates the corresponding parameter is one too (summaries are
propagated bottom-up over the resolved call graph, with literal-flag folding for `inplace` / `metadata` ...).
"""
from __future__ import annotations

import ast
from dataclasses import dataclass
from typing import Dict, List, Optional, Set, Tuple

from .model import FunctionInfo, is_self_attr, loc, norm, walk_no_nested
from .report import Result

MUTATORS = {"append", "extend", "insert", "remove", "pop", "popitem", "clear", "add", "discard", "update", "setdefault", "sort", "reverse", "__setitem__", "__delitem__", "fill", "resize"}
SHALLOW_COPY_FUNCS = {"dict", "list", "set", "sorted", "tuple", "frozenset"}
VALUE_VIEWS = {"values", "items", "get", "pop", "setdefault", "__getitem__"}
NP_INPLACE_KW = "out"


@dataclass(frozen=True)
class Ref:
    root: str
    level: int  # 0 internal object itself, 1 fresh container of internal objects


@dataclass
class Mutation:
    root: str
    node: ast.AST
    fi: FunctionInfo
    why: str

    def text(self):
        return norm(self.node)


class Effects:
    def __init__(self, ctx, arrays: bool = False):
        self.ctx = ctx
        self.arrays = arrays  # treat `name op= value` as an in-place update (numpy arrays)
        self.prog = ctx.prog
        self._sum: Dict[Tuple, List[Mutation]] = {}
        self._lend: Dict[Tuple, Optional[int]] = {}
        self._busy: Set[Tuple] = set()
        # call node -> callees, from the kind engine's resolution
        self.callees: Dict[Tuple[str, int], List[FunctionInfo]] = {}
        for cf in ctx.interp.callfacts:
            lst = self.callees.setdefault((cf.caller.qualname, id(cf.node)), [])
            if cf.callee not in lst:
                lst.append(cf.callee)

    # ------------------------------------------------------------------ public
    def mutations(self, fi: FunctionInfo, consts: Optional[Dict[str, object]] = None) -> List[Mutation]:
        """Mutations of the function's parameters (incl. self), transitively, under literal bindings `consts`."""
        key = (fi.qualname, tuple(sorted((consts or {}).items())))
        if key in self._sum:
            return self._sum[key]
        if key in self._busy:
            return []
        self._busy.add(key)
        try:
            out = self._analyse(fi, dict(consts or {}))
        finally:
            self._busy.discard(key)
        self._sum[key] = out
        return out

    def mutated_params(self, fi, consts=None) -> Set[str]:
        return {m.root for m in self.mutations(fi, consts)}

    def lends(self, fi: FunctionInfo, consts: Optional[Dict[str, object]] = None) -> Dict[str, int]:
        """root -> level of internal references the function may return."""
        key = (fi.qualname, tuple(sorted((consts or {}).items())))
        if key in self._lend:
            return self._lend[key]
        if ("L",) + key in self._busy:
            return {}
        self._busy.add(("L",) + key)
        try:
            st = _State(self, fi, dict(consts or {}))
            st.run()
            out: Dict[str, int] = {}
            for r in st.returned:
                for ref in r:
                    out[ref.root] = min(out.get(ref.root, 9), ref.level)
        finally:
            self._busy.discard(("L",) + key)
        self._lend[key] = out
        return out

    def _analyse(self, fi, consts) -> List[Mutation]:
        st = _State(self, fi, consts)
        st.run()
        return st.mutations


class _State:
    def __init__(self, eff: Effects, fi: FunctionInfo, consts: Dict[str, object]):
        self.eff = eff
        self.fi = fi
        self.consts = consts
        self.env: Dict[str, Set[Ref]] = {}
        self.mutations: List[Mutation] = []
        self.returned: List[Set[Ref]] = []
        self._seen_mut = set()
        self.roots = [a.arg for a in fi.params] + [a.arg for a in fi.node.args.kwonlyargs]
        for r in self.roots:
            self.env[r] = {Ref(r, 0)}
        # parameters with immutable literal bindings are not references
        for k, v in consts.items():
            if k in self.env and (v is None or isinstance(v, (bool, int, float, str))):
                self.env[k] = set()

    def _rebound(self, name: str) -> bool:
        """the parameter is assigned somewhere in the function (its literal binding then does not hold everywhere)"""
        for n in ast.walk(self.fi.node):
            if isinstance(n, ast.Name) and n.id == name and isinstance(n.ctx, (ast.Store, ast.Del)):
                return True
        return False

    # -------------------------------------------------------------- driver
    def run(self):
        body = self.fi.node.body if isinstance(self.fi.node.body, list) else [ast.Return(value=self.fi.node.body)]
        # two passes: aliases created later in a loop body can flow to earlier statements
        for i in range(2):
            self.mutations = []
            self._seen_mut = set()
            self.returned = []
            self.block(body)

    def block(self, stmts):
        for st in stmts:
            self.stmt(st)

    def fold(self, test) -> Optional[bool]:
        if isinstance(test, ast.Constant):
            return bool(test.value)
        if isinstance(test, ast.Name) and test.id in self.consts:
            return bool(self.consts[test.id])
        if isinstance(test, ast.UnaryOp) and isinstance(test.op, ast.Not):
            v = self.fold(test.operand)
            return None if v is None else not v
        if isinstance(test, ast.Compare) and len(test.ops) == 1 and isinstance(test.left, ast.Name) and test.left.id in self.consts and isinstance(test.comparators[0], ast.Constant):
            a, b = self.consts[test.left.id], test.comparators[0].value
            op = test.ops[0]
            if isinstance(op, ast.Is):
                return a is b
            if isinstance(op, ast.IsNot):
                return a is not b
            if isinstance(op, ast.Eq):
                return a == b
            if isinstance(op, ast.NotEq):
                return a != b
        if isinstance(test, ast.BoolOp):
            vals = [self.fold(v) for v in test.values]
            if isinstance(test.op, ast.And):
                if any(v is False for v in vals):
                    return False
                return True if all(v is True for v in vals) else None
            if any(v is True for v in vals):
                return True
            return False if all(v is False for v in vals) else None
        return None

    def stmt(self, st):
        if isinstance(st, (ast.FunctionDef, ast.AsyncFunctionDef, ast.ClassDef)):
            # nested function bodies are scanned with the same environment (closures mutate captured refs)
            if not isinstance(st, ast.ClassDef):
                self.block(st.body)
            return
        if isinstance(st, ast.If):
            self.ev(st.test)
            f = self.fold(st.test)
            if f is not False:
                self.block(st.body)
            if f is not True:
                self.block(st.orelse)
            return
        if isinstance(st, (ast.For, ast.AsyncFor)):
            it = self.ev(st.iter)
            self.bind_target(st.target, self.elements(it, st.iter))
            self.block(st.body)
            self.block(st.orelse)
            return
        if isinstance(st, ast.While):
            self.ev(st.test)
            self.block(st.body)
            self.block(st.orelse)
            return
        if isinstance(st, (ast.With, ast.AsyncWith)):
            for it in st.items:
                self.ev(it.context_expr)
            self.block(st.body)
            return
        if isinstance(st, ast.Try):
            self.block(st.body)
            for h in st.handlers:
                self.block(h.body)
            self.block(st.orelse)
            self.block(st.finalbody)
            return
        if isinstance(st, ast.Assign):
            val = self.ev(st.value)
            for t in st.targets:
                self.assign(t, val, st)
            return
        if isinstance(st, ast.AnnAssign):
            if st.value is not None:
                self.assign(st.target, self.ev(st.value), st)
            return
        if isinstance(st, ast.AugAssign):
            self.ev(st.value)
            t = st.target
            if isinstance(t, ast.Name):
                # x += y on an array / list that aliases an internal object mutates it in place; for numbers it
                # merely rebinds the name, so this is only reported when the engine is told the values are arrays
                for r in self.env.get(t.id, ()) if self.eff.arrays else ():
                    if r.level == 0:
                        self.mutate(r.root, st, f"in-place `{type(st.op).__name__}=` on `{t.id}`, which refers to state of `{r.root}`")
            else:
                self.store_through(t, st)
            return
        if isinstance(st, ast.Delete):
            for t in st.targets:
                if isinstance(t, (ast.Subscript, ast.Attribute)):
                    self.store_through(t, st)
            return
        if isinstance(st, ast.Return):
            if st.value is not None:
                self.returned.append(self.ev(st.value))
            return
        if isinstance(st, ast.Expr):
            v = self.ev(st.value)
            if isinstance(st.value, (ast.Yield, ast.YieldFrom)) and st.value.value is not None:
                self.returned.append(self.ev(st.value.value))
            return
        if isinstance(st, (ast.Raise, ast.Assert)):
            for ch in ast.iter_child_nodes(st):
                if isinstance(ch, ast.expr):
                    self.ev(ch)
            return

    # -------------------------------------------------------------- assignment / mutation
    def mutate(self, root: str, node, why: str):
        k = (root, id(node))
        if k in self._seen_mut:
            return
        self._seen_mut.add(k)
        self.mutations.append(Mutation(root, node, self.fi, why))

    def assign(self, target, val: Set[Ref], st):
        if isinstance(target, ast.Name):
            self.env[target.id] = set(val) | (self.env.get(target.id, set()) if target.id in self.roots and False else set())
        elif isinstance(target, (ast.Tuple, ast.List)):
            for t in target.elts:
                self.assign(t.value if isinstance(t, ast.Starred) else t, self.elements(val, None), st)
        elif isinstance(target, (ast.Subscript, ast.Attribute)):
            self.store_through(target, st)
            if isinstance(target, ast.Attribute) and isinstance(target.value, ast.Name):
                # obj.field = <value>: the field now also refers to whatever the value referred to
                key = f"{target.value.id}.{target.attr}"
                self.env[key] = {r for r in val if r.root != target.value.id}

    def store_through(self, target, st):
        base = target.value
        refs = self.ev(base)
        for r in refs:
            if r.level == 0:
                self.mutate(r.root, st, f"store through `{norm(base)}`, which refers to state of `{r.root}`")

    def bind_target(self, target, val):
        if isinstance(target, ast.Name):
            self.env[target.id] = set(val)
        elif isinstance(target, (ast.Tuple, ast.List)):
            for t in target.elts:
                self.bind_target(t, val)

    def elements(self, refs: Set[Ref], node) -> Set[Ref]:
        """References obtained by iterating / indexing into values of kind `refs`."""
        return {Ref(r.root, 0) for r in refs}

    # -------------------------------------------------------------- expressions
    def ev(self, e) -> Set[Ref]:
        if e is None:
            return set()
        if isinstance(e, ast.Name):
            return set(self.env.get(e.id, ()))
        if isinstance(e, ast.Attribute):
            base = self.ev(e.value)
            extra = set()
            if isinstance(e.value, ast.Name):
                extra = set(self.env.get(f"{e.value.id}.{e.attr}", ()))
            return {Ref(r.root, 0) for r in base if r.level == 0} | {Ref(r.root, 1) for r in base if r.level == 1} | extra
        if isinstance(e, ast.Subscript):
            base = self.ev(e.value)
            self.ev(e.slice) if not isinstance(e.slice, ast.Slice) else None
            return {Ref(r.root, 0) for r in base}
        if isinstance(e, ast.Call):
            return self.call(e)
        if isinstance(e, ast.IfExp):
            f = self.fold(e.test)
            self.ev(e.test)
            out = set()
            if f is not False:
                out |= self.ev(e.body)
            if f is not True:
                out |= self.ev(e.orelse)
            return out
        if isinstance(e, ast.BoolOp):
            out = set()
            for v in e.values:
                out |= self.ev(v)
            return out
        if isinstance(e, (ast.Tuple, ast.List, ast.Set)):
            inner = set()
            for x in e.elts:
                inner |= self.ev(x.value if isinstance(x, ast.Starred) else x)
            return {Ref(r.root, 1) for r in inner}
        if isinstance(e, ast.Dict):
            inner = set()
            for k, v in zip(e.keys, e.values):
                r = self.ev(v)
                if k is None:
                    # {**x}: shallow copy
                    inner |= {Ref(x.root, 0) for x in r}
                else:
                    inner |= r
            return {Ref(r.root, 1) for r in inner}
        if isinstance(e, (ast.ListComp, ast.SetComp, ast.GeneratorExp, ast.DictComp)):
            for g in e.generators:
                it = self.ev(g.iter)
                self.bind_target(g.target, self.elements(it, g.iter))
                for c in g.ifs:
                    self.ev(c)
            inner = self.ev(e.value) if isinstance(e, ast.DictComp) else self.ev(e.elt)
            return {Ref(r.root, 1) for r in inner}
        if isinstance(e, ast.Lambda):
            self.ev(e.body)
            return set()
        if isinstance(e, (ast.BinOp,)):
            self.ev(e.left)
            self.ev(e.right)
            return set()
        if isinstance(e, ast.Starred):
            return self.ev(e.value)
        if isinstance(e, ast.NamedExpr):
            v = self.ev(e.value)
            self.assign(e.target, v, e)
            return v
        for ch in ast.iter_child_nodes(e):
            if isinstance(ch, ast.expr):
                self.ev(ch)
        return set()

    def call(self, e: ast.Call) -> Set[Ref]:
        args = [self.ev(a.value if isinstance(a, ast.Starred) else a) for a in e.args]
        kwargs = {kw.arg: self.ev(kw.value) for kw in e.keywords}
        f = e.func
        # ---- builtin shallow copies / views
        if isinstance(f, ast.Name):
            if f.id in SHALLOW_COPY_FUNCS:
                inner = args[0] if args else set()
                return {Ref(r.root, 1) for r in inner}
            if f.id in ("iter", "reversed", "enumerate", "zip", "map", "filter"):
                out = set()
                for a in args:
                    out |= {Ref(r.root, 1) for r in a}
                return out
            if f.id in ("next", "max", "min"):
                out = set()
                for a in args:
                    out |= {Ref(r.root, 0) for r in a}
                return out
            if f.id in ("len", "str", "int", "float", "bool", "isinstance", "print", "range", "sum", "any", "all", "type", "hasattr", "repr", "abs", "round", "id"):
                return set()
        if isinstance(f, ast.Attribute):
            dotted = norm(f)
            if dotted in ("copy.deepcopy",):
                return set()
            if dotted in ("copy.copy",):
                return {Ref(r.root, 1) for r in (args[0] if args else set())}
            recv = self.ev(f.value)
            name = f.attr
            # numpy in-place through out=
            if NP_INPLACE_KW in kwargs:
                for r in kwargs[NP_INPLACE_KW]:
                    if r.level == 0:
                        self.mutate(r.root, e, f"`out=` writes into an array that is state of `{r.root}`")
            callees = self.eff.callees.get((self.fi.qualname, id(e)), [])
            if not callees:
                if name in MUTATORS:
                    for r in recv:
                        if r.level == 0:
                            self.mutate(r.root, e, f"`.{name}()` on `{norm(f.value)}`, which refers to state of `{r.root}`")
                    return {Ref(r.root, 0) for r in recv} if name in ("pop", "setdefault") else set()
                if name in ("copy",):
                    return {Ref(r.root, 1) for r in recv}
                if name in ("values", "items", "keys", "get", "union", "intersection", "difference", "todense", "toarray", "tocsr"):
                    if name in ("keys", "union", "intersection", "difference", "todense", "toarray", "tocsr"):
                        return set()
                    return {Ref(r.root, 0 if name == "get" else 1) if r.level == 0 else Ref(r.root, r.level) for r in recv} if name != "get" else {Ref(r.root, 0) for r in recv}
                return set()
            return self.repo_call(e, callees, recv, args, kwargs)
        if isinstance(f, ast.Name):
            callees = self.eff.callees.get((self.fi.qualname, id(e)), [])
            if callees:
                return self.repo_call(e, callees, None, args, kwargs)
        return set()

    def repo_call(self, e, callees, recv, args, kwargs) -> Set[Ref]:
        out: Set[Ref] = set()
        for callee in callees:
            pnames = [a.arg for a in callee.params]
            is_method = callee.cls is not None and not callee.is_static and callee.parent is None
            is_ctor = callee.name == "__init__" and recv is None
            binding: Dict[str, Set[Ref]] = {}
            pos = list(args)
            if is_method:
                binding[pnames[0]] = set() if is_ctor else (recv or set())
                rest = pnames[1:]
            else:
                rest = pnames
            for p, a in zip(rest, pos):
                binding[p] = a
            for k, v in kwargs.items():
                if k is not None:
                    binding[k] = v
            # literal flags of the call (and literal defaults) are folded in the callee
            consts = {}
            defaults = callee.defaults()
            lit_pos = list(e.args)
            for p, a in zip(rest, lit_pos):
                if isinstance(a, ast.Constant) and (a.value is None or isinstance(a.value, (bool, int, float, str))):
                    consts[p] = a.value
                elif isinstance(a, ast.Name) and a.id in self.consts and not self._rebound(a.id):
                    consts[p] = self.consts[a.id]  # a literal flag of this context handed on unchanged
            for kw in e.keywords:
                if kw.arg and isinstance(kw.value, ast.Constant) and (kw.value.value is None or isinstance(kw.value.value, (bool, int, float, str))):
                    consts[kw.arg] = kw.value.value
                elif kw.arg and isinstance(kw.value, ast.Name) and kw.value.id in self.consts and not self._rebound(kw.value.id):
                    consts[kw.arg] = self.consts[kw.value.id]
            for p in rest + [a.arg for a in callee.node.args.kwonlyargs]:
                if p not in binding and p in defaults and isinstance(defaults[p], ast.Constant):
                    v = defaults[p].value
                    if v is None or isinstance(v, (bool, int, float, str)):
                        consts[p] = v
            for m in self.eff.mutations(callee, consts):
                for r in binding.get(m.root, ()):
                    if r.level == 0:
                        self.mutate(r.root, e, f"calls {callee.short}, which modifies its `{m.root}` ({loc(m.fi, m.node)}: {m.why})")
            if is_ctor:
                # a constructed object that stored an argument by reference keeps that alias: handled through mutations of the
                # constructor's parameters above; the new object itself is fresh
                continue
            lend = self.eff.lends(callee, consts)
            for root, level in lend.items():
                for r in binding.get(root, ()):
                    out.add(Ref(r.root, max(level, r.level) if r.level == 1 else level))
        return out


# ====================================================================== rules
def check_pure(ctx, eff: Effects, res: Result, dotted: str, roots=("self",), consts=None, rule="E-PURE", detail_prefix=""):
    fi = ctx.require(dotted)
    muts = eff.mutations(fi, consts)
    pn = [a.arg for a in fi.params]
    for root in roots:
        if root not in pn:
            res.unknown(rule, fi.short, f"parameter {root}", detail_prefix + root, "no such parameter", loc(fi, fi.node))
            continue
        bad = [m for m in muts if m.root == root]
        if not bad:
            res.ok(rule, fi.short, f"`{root}` is not modified", detail_prefix + root, loc(fi, fi.node))
        for m in bad:
            res.violation(rule, fi.short, m.text(), detail_prefix + root, f"{m.why} - but {fi.short} must leave `{root}` unchanged", loc(m.fi, m.node))


def check_deepcopy(ctx, res: Result, dotted: str, rule="E-FRESHCOPY"):
    """copy() hands back an object that shares nothing mutable with self: `copy.deepcopy(self)`, or a hand-built copy
    in which every table with mutable values (adjacency lists, metadata dicts) is deep-copied / rebuilt per value.
    A table of mutable values that is copied one level deep (`dict(self._t)`, `self._t.copy()`) is reported."""
    from .kinds import Atom, Dct, Lst, St

    fi = ctx.require(dotted)
    v = ctx.view(fi)
    rets = [n for n in walk_no_nested(fi.node) if isinstance(n, ast.Return) and n.value is not None]
    if not rets:
        res.violation(rule, fi.short, "return", "deep", "copy() returns nothing", loc(fi, fi.node))
        return
    tables = ctx.interp.class_tables.get(fi.cls.name, {}) if fi.cls is not None else {}

    def mutable_values(tab):
        k = tables.get(tab)
        return isinstance(k, Dct) and (isinstance(k.val, (Lst, St, Dct)) or (isinstance(k.val, Atom) and k.val.name == "META"))

    def shallow_of_self_table(e):
        """the table of self that `e` copies one level deep (or aliases), else None"""
        if is_self_attr(e):
            return e.attr
        if isinstance(e, ast.Call):
            fn = norm(e.func)
            if fn in ("dict", "copy.copy", "list", "set") and len(e.args) == 1 and is_self_attr(e.args[0]):
                return e.args[0].attr
            if isinstance(e.func, ast.Attribute) and e.func.attr == "copy" and is_self_attr(e.func.value) and not e.args:
                return e.func.value.attr
        if isinstance(e, ast.Dict) and len(e.keys) == 1 and e.keys[0] is None and is_self_attr(e.values[0]):
            return e.values[0].attr
        if isinstance(e, ast.DictComp) and len(e.generators) == 1:
            g = e.generators[0]
            it = g.iter
            if isinstance(it, ast.Call) and isinstance(it.func, ast.Attribute) and it.func.attr == "items" and is_self_attr(it.func.value) and isinstance(g.target, ast.Tuple) and len(g.target.elts) == 2 and isinstance(e.value, ast.Name) and isinstance(g.target.elts[1], ast.Name) and e.value.id == g.target.elts[1].id:
                return it.func.value.attr  # {k: v for k, v in self._t.items()}: the values are the same objects
        return None

    for r in rets:
        e = v.resolve(r.value)
        deep = isinstance(e, ast.Call) and norm(e.func) in ("copy.deepcopy", "deepcopy") and len(e.args) >= 1 and isinstance(e.args[0], ast.Name) and e.args[0].id == "self"
        shallow = (isinstance(e, ast.Call) and norm(e.func) in ("copy.copy", "copy")) or (isinstance(e, ast.Name) and e.id == "self")
        if deep:
            res.ok(rule, fi.short, norm(r), "deep", loc(fi, r))
            continue
        if shallow:
            res.violation(rule, fi.short, norm(r), "deep", "copy() does not return copy.deepcopy(self): tables / metadata dicts are shared between the copy and the original", loc(fi, r))
            continue
        # hand-built copy: the stores into the returned object's tables
        if isinstance(r.value, ast.Name):
            obj = r.value.id
            shared = []
            for n in walk_no_nested(fi.node):
                if isinstance(n, ast.Assign) and len(n.targets) == 1 and isinstance(n.targets[0], ast.Attribute) and isinstance(n.targets[0].value, ast.Name) and n.targets[0].value.id == obj:
                    src = shallow_of_self_table(n.value)
                    if src is not None and mutable_values(src):
                        shared.append((n, src))
            for n, src in shared:
                res.violation(rule, fi.short, norm(n), "deep:" + src, f"the copy receives a one-level copy of {src}, whose values are mutable (lists / metadata dicts): they are shared between the copy and the original, so an in-place update of one shows up in the other", loc(fi, n))
            if shared:
                continue
        res.unknown(rule, fi.short, norm(r), "deep", "the returned object is not recognised as copy.deepcopy(self)", loc(fi, r))


def check_shared_literals(ctx, res: Result, dotted: str, rule="E-SHARED"):
    """One mutable object must not become the value of several table entries:
    dict.fromkeys(keys, <mutable>), [<mutable>] * n."""
    fi = ctx.require(dotted)
    hits = 0
    for n in walk_no_nested(fi.node):
        if isinstance(n, ast.Call) and isinstance(n.func, ast.Attribute) and n.func.attr == "fromkeys" and len(n.args) >= 2 and _is_mutable_literal(n.args[1]):
            hits += 1
            res.violation(rule, fi.short, norm(n), "fromkeys", "dict.fromkeys(keys, <mutable>) shares ONE object between all keys: an in-place update of one entry shows up in all of them", loc(fi, n))
        if isinstance(n, ast.BinOp) and isinstance(n.op, ast.Mult) and isinstance(n.left, ast.List) and any(_is_mutable_literal(x) for x in n.left.elts):
            hits += 1
            res.violation(rule, fi.short, norm(n), "list-mult", "[<mutable>] * n repeats ONE object n times", loc(fi, n))
    if hits == 0:
        res.ok(rule, fi.short, "no shared mutable literal", "scan", loc(fi, fi.node))


def _is_mutable_literal(e) -> bool:
    if isinstance(e, (ast.Dict, ast.List, ast.Set)):
        return True
    return isinstance(e, ast.Call) and isinstance(e.func, ast.Name) and e.func.id in ("dict", "list", "set") and not e.args

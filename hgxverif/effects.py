"""Effects, aliases and borrowed references (DESIGN 2.C).

Abstract values: Ref(root, level)  - level 0: the very object reachable from `root` (an internal table, a
metadata dict, ...); level 1: a fresh container whose *values* are such internal objects.  Everything else is
"clean" (fresh or immutable).  A store / `del` / mutator-method call through a level-0 reference is a mutation
of `root`; passing it to a callee that mutates the corresponding parameter is one too (summaries are
propagated bottom-up over the resolved call graph, with literal-flag folding for `inplace` / `metadata` ...).
"""
from __future__ import annotations

import ast
from dataclasses import dataclass
from typing import Dict, List, Optional, Set, Tuple

from .model import FunctionInfo, is_self_attr, loc, norm, walk_no_nested
from .report import Result

MUTATORS = {"append", "extend", "insert", "remove", "pop", "popitem", "clear", "add", "discard", "update", "setdefault", "sort", "reverse", "__setitem__", "__delitem__", "fill", "resize"}
SHALLOW_COPY_FUNCS = {"dict", "list", "set", "sorted", "tuple", "frozenset"}
VALUE_VIEWS = {"values", "items", "get", "pop", "setdefault", "__getitem__"}
NP_INPLACE_KW = "out"


@dataclass(frozen=True)
class Ref:
    root: str
    level: int  # 0 internal object itself, 1 fresh container of internal objects


@dataclass
class Mutation:
    root: str
    node: ast.AST
    fi: FunctionInfo
    why: str
    memo: Optional[Tuple[str, str]] = None  # (class, attribute): the mutation rebinds a private non-table attribute (a cache)

    def text(self):
        return norm(self.node)


class Effects:
    def __init__(self, ctx, arrays: bool = False):
        self.ctx = ctx
        self.arrays = arrays  # treat `name op= value` as an in-place update (numpy arrays)
        self.prog = ctx.prog
        self._sum: Dict[Tuple, List[Mutation]] = {}
        self._lend: Dict[Tuple, Optional[int]] = {}
        self._capt: Dict[Tuple, Dict[str, Set[Tuple[str, str]]]] = {}
        self._ltab: Dict[str, Dict[str, int]] = {}
        self._busy: Set[Tuple] = set()
        # call node -> callees, from the kind engine's resolution
        self.callees: Dict[Tuple[str, int], List[FunctionInfo]] = {}
        for cf in ctx.interp.callfacts:
            lst = self.callees.setdefault((cf.caller.qualname, id(cf.node)), [])
            if cf.callee not in lst:
                lst.append(cf.callee)

    # ------------------------------------------------------------------ public
    def mutations(self, fi: FunctionInfo, consts: Optional[Dict[str, object]] = None) -> List[Mutation]:
        """Mutations of the function's parameters (incl. self), transitively, under literal bindings `consts`."""
        key = (fi.qualname, tuple(sorted((consts or {}).items())))
        if key in self._sum:
            return self._sum[key]
        if key in self._busy:
            return []
        self._busy.add(key)
        try:
            out = self._analyse(fi, dict(consts or {}))
        finally:
            self._busy.discard(key)
        self._sum[key] = out
        return out

    def mutated_params(self, fi, consts=None) -> Set[str]:
        return {m.root for m in self.mutations(fi, consts)}

    def lends(self, fi: FunctionInfo, consts: Optional[Dict[str, object]] = None) -> Dict[str, int]:
        """root -> level of internal references the function may return."""
        key = (fi.qualname, tuple(sorted((consts or {}).items())))
        if key in self._lend:
            return self._lend[key]
        if ("L",) + key in self._busy:
            return {}
        self._busy.add(("L",) + key)
        try:
            st = _State(self, fi, dict(consts or {}))
            st.run()
            out: Dict[str, int] = {}
            for r in st.returned:
                for ref in r:
                    out[ref.root] = min(out.get(ref.root, 9), ref.level)
        finally:
            self._busy.discard(("L",) + key)
        self._lend[key] = out
        return out

    def captures(self, fi: FunctionInfo, consts: Optional[Dict[str, object]] = None) -> Dict[str, Set[Tuple[str, str]]]:
        """parameter -> {(holder parameter, table)}: objects handed in that the function stores by reference in a table of
        another argument (`self._edge_metadata[i] = metadata`), directly or through callees."""
        key = ("C", fi.qualname, tuple(sorted((consts or {}).items())))
        if key in self._capt:
            return self._capt[key]
        if key in self._busy:
            return {}
        self._busy.add(key)
        try:
            st = _State(self, fi, dict(consts or {}))
            st.run()
            out = {p: set(h) for p, h in st.captures.items()}
        finally:
            self._busy.discard(key)
        self._capt[key] = out
        return out

    def lend_tables(self, fi: FunctionInfo, _depth: int = 0) -> Dict[str, int]:
        """table attribute -> level for a method that returns a table of its receiver (level 1: the table, whose VALUES are
        the stored objects) or one entry of it (level 0: the stored object itself)."""
        key = fi.qualname
        if key in self._ltab:
            return self._ltab[key]
        out: Dict[str, int] = {}
        self._ltab[key] = out
        if fi.cls is None or not fi.params:
            return out
        me = fi.params[0].arg
        v = self.ctx.view(fi)

        def table(x):
            return x.attr if isinstance(x, ast.Attribute) and isinstance(x.value, ast.Name) and x.value.id == me else None

        for n in walk_no_nested(fi.node):
            if not (isinstance(n, ast.Return) and n.value is not None):
                continue
            r = v.inline(n.value)
            alts = [r.body, r.orelse] if isinstance(r, ast.IfExp) else [r]
            for a in alts:
                if table(a):
                    out[table(a)] = min(out.get(table(a), 9), 1)
                elif isinstance(a, ast.Subscript) and table(a.value):
                    out[table(a.value)] = 0
                elif isinstance(a, ast.Call) and isinstance(a.func, ast.Attribute) and a.func.attr in ("get", "setdefault") and table(a.func.value):
                    out[table(a.func.value)] = 0
                elif isinstance(a, ast.Call) and _depth < 3:
                    orig = getattr(a, "_orig", a)
                    for callee in self.ctx.callees(fi, orig):
                        if callee.cls is fi.cls and isinstance(a.func, ast.Attribute) and isinstance(a.func.value, ast.Name) and a.func.value.id == me:
                            for t, l in self.lend_tables(callee, _depth + 1).items():
                                out[t] = min(out.get(t, 9), l)
        return out

    def memo_attr(self, fi: FunctionInfo, base: ast.Name, attr: str):
        """(class, attr) when `<base>.<attr> = ...` rebinds a private attribute that is none of the declared tables of the
        object's class: a cache of derived data, not part of the observable state by itself"""
        cls = None
        if fi.cls is not None and fi.params and fi.params[0].arg == base.id and not fi.is_static:
            cls = fi.cls.name
        else:
            from .kinds import Obj, strip_none

            k = strip_none(self.ctx.view(fi).kind(base))
            if isinstance(k, Obj):
                cls = k.cls
        tabs = self.ctx.interp.class_tables.get(cls)
        if tabs is None or attr in tabs or not attr.startswith("_"):
            return None
        return (cls, attr)

    def _analyse(self, fi, consts) -> List[Mutation]:
        st = _State(self, fi, consts)
        st.run()
        return st.mutations


class _State:
    def __init__(self, eff: Effects, fi: FunctionInfo, consts: Dict[str, object]):
        self.eff = eff
        self.fi = fi
        self.consts = consts
        self.env: Dict[str, Set[Ref]] = {}
        self.mutations: List[Mutation] = []
        self.returned: List[Set[Ref]] = []
        self._seen_mut = set()
        # parameter -> {(holder parameter, table attribute)}: the object handed in as the parameter is stored BY REFERENCE in a
        # table of the holder (`self._edge_metadata[i] = metadata`)
        self.captures: Dict[str, Set[Tuple[str, str]]] = {}
        # local object name -> root -> tables of that object which hold internal objects of `root` by reference
        self.captured: Dict[str, Dict[str, Set[str]]] = {}
        self.roots = [a.arg for a in fi.params] + [a.arg for a in fi.node.args.kwonlyargs]
        for r in self.roots:
            self.env[r] = {Ref(r, 0)}
        # parameters with immutable literal bindings are not references
        for k, v in consts.items():
            if k in self.env and (v is None or isinstance(v, (bool, int, float, str))):
                self.env[k] = set()

    def _evidently_list(self, e, depth=0) -> bool:
        """the expression is a list by construction: a display / comprehension, list(...) / sorted(...), or a call of a repository
        function whose returns are such (directly or through a local that is assigned one)"""
        if isinstance(e, (ast.List, ast.ListComp)):
            return True
        if isinstance(e, ast.Call) and isinstance(e.func, ast.Name) and e.func.id in ("list", "sorted"):
            return True
        if isinstance(e, ast.Call) and depth < 2:
            for callee in self.eff.ctx.callees(self.fi, e):
                rets = [r for r in walk_no_nested(callee.node) if isinstance(r, ast.Return) and r.value is not None]
                ok = bool(rets)
                for r in rets:
                    v = r.value
                    if isinstance(v, ast.Name):
                        defs = [a.value for a in walk_no_nested(callee.node) if isinstance(a, ast.Assign) and any(isinstance(t_, ast.Name) and t_.id == v.id for t_ in a.targets)]
                        ok = ok and any(isinstance(d, (ast.List, ast.ListComp)) or (isinstance(d, ast.Call) and isinstance(d.func, ast.Name) and d.func.id in ("list", "sorted")) for d in defs)
                    else:
                        ok = ok and (isinstance(v, (ast.List, ast.ListComp)) or (isinstance(v, ast.Call) and isinstance(v.func, ast.Name) and v.func.id in ("list", "sorted")))
                if ok:
                    return True
        return False

    def _rebound(self, name: str) -> bool:
        """the parameter is assigned somewhere in the function (its literal binding then does not hold everywhere)"""
        for n in ast.walk(self.fi.node):
            if isinstance(n, ast.Name) and n.id == name and isinstance(n.ctx, (ast.Store, ast.Del)):
                return True
        return False

    # -------------------------------------------------------------- driver
    def run(self):
        body = self.fi.node.body if isinstance(self.fi.node.body, list) else [ast.Return(value=self.fi.node.body)]
        # two passes: aliases created later in a loop body can flow to earlier statements
        for i in range(2):
            self.mutations = []
            self._seen_mut = set()
            self.returned = []
            self.block(body)

    def block(self, stmts):
        for st in stmts:
            self.stmt(st)
            if self._ends(st):
                break  # `if not inplace: ...; return copy` under inplace=False: what follows runs for the other value only

    def _ends(self, st) -> bool:
        """control never reaches the statement after `st` (under the literal flag bindings of this context)"""
        if isinstance(st, (ast.Return, ast.Raise, ast.Continue, ast.Break)):
            return True
        if isinstance(st, ast.If):
            f = self.fold(st.test)
            arms = [st.body] if f is True else ([st.orelse] if f is False else [st.body, st.orelse])
            return all(bool(a) and any(self._ends(x) for x in a) for a in arms)
        if isinstance(st, (ast.With, ast.AsyncWith)):
            return any(self._ends(x) for x in st.body)
        return False

    def fold(self, test) -> Optional[bool]:
        if isinstance(test, ast.Constant):
            return bool(test.value)
        if isinstance(test, ast.Name) and test.id in self.consts:
            return bool(self.consts[test.id])
        if isinstance(test, ast.UnaryOp) and isinstance(test.op, ast.Not):
            v = self.fold(test.operand)
            return None if v is None else not v
        if isinstance(test, ast.Compare) and len(test.ops) == 1 and isinstance(test.left, ast.Name) and test.left.id in self.consts and isinstance(test.comparators[0], ast.Constant):
            a, b = self.consts[test.left.id], test.comparators[0].value
            op = test.ops[0]
            if isinstance(op, ast.Is):
                return a is b
            if isinstance(op, ast.IsNot):
                return a is not b
            if isinstance(op, ast.Eq):
                return a == b
            if isinstance(op, ast.NotEq):
                return a != b
        if isinstance(test, ast.BoolOp):
            vals = [self.fold(v) for v in test.values]
            if isinstance(test.op, ast.And):
                if any(v is False for v in vals):
                    return False
                return True if all(v is True for v in vals) else None
            if any(v is True for v in vals):
                return True
            return False if all(v is False for v in vals) else None
        return None

    def stmt(self, st):
        if isinstance(st, (ast.FunctionDef, ast.AsyncFunctionDef, ast.ClassDef)):
            # nested function bodies are scanned with the same environment (closures mutate captured refs)
            if not isinstance(st, ast.ClassDef):
                self.block(st.body)
            return
        if isinstance(st, ast.If):
            self.ev(st.test)
            f = self.fold(st.test)
            if f is True:
                self.block(st.body)
            elif f is False:
                self.block(st.orelse)
            else:
                # both arms start from the same environment; afterwards a name refers to whatever it referred to on either
                before = {k: set(v) for k, v in self.env.items()}
                self.block(st.body)
                after_body = self.env
                self.env = before
                self.block(st.orelse)
                for k, v in after_body.items():
                    self.env[k] = set(self.env.get(k, ())) | v
            return
        if isinstance(st, (ast.For, ast.AsyncFor)):
            it = self.ev(st.iter)
            self.bind_target(st.target, self.elements(it, st.iter))
            snap = self._snapshot()
            self.block(st.body)
            if self._snapshot() != snap:
                # aliases created late in the body reach its earlier statements on the next iteration
                self.bind_target(st.target, self.elements(it, st.iter))
                self.block(st.body)
            self.block(st.orelse)
            return
        if isinstance(st, ast.While):
            self.ev(st.test)
            snap = self._snapshot()
            self.block(st.body)
            if self._snapshot() != snap:
                self.block(st.body)
            self.block(st.orelse)
            return
        if isinstance(st, (ast.With, ast.AsyncWith)):
            for it in st.items:
                self.ev(it.context_expr)
            self.block(st.body)
            return
        if hasattr(ast, "Match") and isinstance(st, ast.Match):
            # (a match statement the canonicalisation did not lower) every arm starts from the same environment
            subj = self.ev(st.subject)
            before = {k: set(v) for k, v in self.env.items()}
            merged = {k: set(v) for k, v in before.items()}
            for case in st.cases:
                self.env = {k: set(v) for k, v in before.items()}
                for x in ast.walk(case.pattern):
                    nm = getattr(x, "name", None)
                    if isinstance(x, (ast.MatchAs, ast.MatchStar)) and nm:
                        self.env[nm] = self.elements(subj, None) | set(subj)
                if case.guard is not None:
                    self.ev(case.guard)
                self.block(case.body)
                for k, v in self.env.items():
                    merged[k] = set(merged.get(k, ())) | v
            self.env = merged
            return
        if isinstance(st, ast.Try):
            self.block(st.body)
            for h in st.handlers:
                self.block(h.body)
            self.block(st.orelse)
            self.block(st.finalbody)
            return
        if isinstance(st, ast.Assign):
            # parallel assignment `a, b = x, y`: component by component
            if isinstance(st.value, (ast.Tuple, ast.List)) and all(isinstance(t, (ast.Tuple, ast.List)) and len(t.elts) == len(st.value.elts) and not any(isinstance(e, ast.Starred) for e in list(t.elts) + list(st.value.elts)) for t in st.targets):
                vals = [self.ev(e) for e in st.value.elts]
                for t in st.targets:
                    for te, ve in zip(t.elts, vals):
                        self.assign(te, ve, st)
                return
            val = self.ev(st.value)
            for t in st.targets:
                self.assign(t, val, st)
            return
        if isinstance(st, ast.AnnAssign):
            if st.value is not None:
                self.assign(st.target, self.ev(st.value), st)
            return
        if isinstance(st, ast.AugAssign):
            self.ev(st.value)
            t = st.target
            if isinstance(t, ast.Name):
                # x += y on an array / list that aliases an internal object mutates it in place; for numbers it
                # merely rebinds the name, so this is only reported when the engine is told the values are arrays
                inplace = self.eff.arrays
                if not inplace and isinstance(st.op, (ast.Add, ast.BitOr, ast.BitAnd, ast.Sub)):
                    # `edges += more` on a LIST (`|=` / `&=` / `-=` on a set) extends the very object the name refers to
                    try:
                        from .kinds import Dct as _D, Lst as _L, St as _S, strip_none as _sn

                        kt = _sn(self.eff.ctx.interp.kind_at(self.fi, t))
                        inplace = (isinstance(kt, _L) and isinstance(st.op, ast.Add)) or (isinstance(kt, (_S, _D)) and not isinstance(st.op, ast.Add))
                    except Exception:
                        inplace = False
                    if not inplace and isinstance(st.op, ast.Add) and self._evidently_list(st.value):
                        inplace = True  # `x += [..]` / `x += self._bucket(k)`: only a list takes a list on its right
                for r in self.env.get(t.id, ()) if inplace else ():
                    if r.level == 0:
                        self.mutate(r.root, st, f"in-place `{type(st.op).__name__}=` on `{t.id}`, which refers to state of `{r.root}`")
            else:
                self.store_through(t, st)
            return
        if isinstance(st, ast.Delete):
            for t in st.targets:
                if isinstance(t, (ast.Subscript, ast.Attribute)):
                    self.store_through(t, st)
            return
        if isinstance(st, ast.Return):
            if st.value is not None:
                self.returned.append(self.ev(st.value))
            return
        if isinstance(st, ast.Expr):
            v = self.ev(st.value)
            if isinstance(st.value, (ast.Yield, ast.YieldFrom)) and st.value.value is not None:
                self.returned.append(self.ev(st.value.value))
            return
        if isinstance(st, (ast.Raise, ast.Assert)):
            for ch in ast.iter_child_nodes(st):
                if isinstance(ch, ast.expr):
                    self.ev(ch)
            return

    def _snapshot(self):
        return (
            {k: frozenset(v) for k, v in self.env.items() if v},
            {k: {r: frozenset(t) for r, t in d.items()} for k, d in self.captured.items() if d},
        )

    def _holder_table(self, target):
        """(root parameter, attribute) when `target` is a slot of `<param>.<attr>[...]` / `<param>.<attr>`"""
        cur = target
        while isinstance(cur, ast.Subscript):
            cur = cur.value
        if isinstance(cur, ast.Attribute) and isinstance(cur.value, ast.Name) and cur.value.id in self.roots:
            if {r for r in self.env.get(cur.value.id, ()) if r.level == 0 and r.root == cur.value.id}:
                return cur.value.id, cur.attr
        return None

    def _capture(self, holder, table, val: Set[Ref]):
        for r in val:
            if r.level == 0 and r.root in self.roots and r.root != holder:
                self.captures.setdefault(r.root, set()).add((holder, table))

    # -------------------------------------------------------------- assignment / mutation
    def mutate(self, root: str, node, why: str, memo=None):
        k = (root, id(node))
        if k in self._seen_mut:
            return
        self._seen_mut.add(k)
        self.mutations.append(Mutation(root, node, self.fi, why, memo))

    def assign(self, target, val: Set[Ref], st):
        if isinstance(target, ast.Name):
            self.env[target.id] = set(val) | (self.env.get(target.id, set()) if target.id in self.roots and False else set())
            src = getattr(st, "value", None)
            if isinstance(src, ast.Name) and src.id in self.captured:
                self.captured[target.id] = self.captured[src.id]
            elif not isinstance(st, ast.NamedExpr) or True:
                self.captured.pop(target.id, None)
        elif isinstance(target, (ast.Tuple, ast.List)):
            for t in target.elts:
                self.assign(t.value if isinstance(t, ast.Starred) else t, self.elements(val, None), st)
        elif isinstance(target, (ast.Subscript, ast.Attribute)):
            self.store_through(target, st)
            ht = self._holder_table(target)
            if ht is not None and isinstance(target, ast.Subscript):
                self._capture(ht[0], ht[1], val)
            if isinstance(target, ast.Attribute) and isinstance(target.value, ast.Name):
                # obj.field = <value>: the field now also refers to whatever the value referred to
                key = f"{target.value.id}.{target.attr}"
                self.env[key] = {r for r in val if r.root != target.value.id}

    def store_through(self, target, st):
        base = target.value
        refs = self.ev(base)
        memo = None
        if isinstance(st, (ast.Assign, ast.AnnAssign)) and isinstance(target, ast.Attribute) and isinstance(base, ast.Name) and base.id in self.roots:
            memo = self.eff.memo_attr(self.fi, base, target.attr)
        # a KEYED memo: `self._cache[key] = value` / `del self._cache[key]` on a private attribute that is none of the declared tables
        owner = None
        if isinstance(target, ast.Subscript) and isinstance(base, ast.Attribute) and isinstance(base.value, ast.Name) and base.value.id in self.roots:
            memo = self.eff.memo_attr(self.fi, base.value, base.attr)
            owner = base.value.id
        for r in refs:
            if r.level == 0:
                self.mutate(r.root, st, f"store through `{norm(base)}`, which refers to state of `{r.root}`", memo if memo and r.root == (owner or getattr(base, "id", None)) else None)

    def bind_target(self, target, val):
        if isinstance(target, ast.Name):
            self.env[target.id] = set(val)
        elif isinstance(target, (ast.Tuple, ast.List)):
            for t in target.elts:
                self.bind_target(t, val)

    def elements(self, refs: Set[Ref], node) -> Set[Ref]:
        """References obtained by iterating / indexing into values of kind `refs`."""
        return {Ref(r.root, 0) for r in refs}

    # -------------------------------------------------------------- expressions
    def ev(self, e) -> Set[Ref]:
        if e is None:
            return set()
        if isinstance(e, ast.Name):
            return set(self.env.get(e.id, ()))
        if isinstance(e, ast.Attribute):
            base = self.ev(e.value)
            extra = set()
            if isinstance(e.value, ast.Name):
                extra = set(self.env.get(f"{e.value.id}.{e.attr}", ()))
                for root, tabs in self.captured.get(e.value.id, {}).items():
                    if e.attr in tabs:
                        extra.add(Ref(root, 1))
            return {Ref(r.root, 0) for r in base if r.level == 0} | {Ref(r.root, 1) for r in base if r.level == 1} | extra
        if isinstance(e, ast.Subscript):
            base = self.ev(e.value)
            self.ev(e.slice) if not isinstance(e.slice, ast.Slice) else None
            return {Ref(r.root, 0) for r in base}
        if isinstance(e, ast.Call):
            return self.call(e)
        if isinstance(e, ast.IfExp):
            f = self.fold(e.test)
            self.ev(e.test)
            out = set()
            if f is not False:
                out |= self.ev(e.body)
            if f is not True:
                out |= self.ev(e.orelse)
            return out
        if isinstance(e, ast.BoolOp):
            out = set()
            for v in e.values:
                out |= self.ev(v)
            return out
        if isinstance(e, (ast.Tuple, ast.List, ast.Set)):
            inner = set()
            for x in e.elts:
                inner |= self.ev(x.value if isinstance(x, ast.Starred) else x)
            return {Ref(r.root, 1) for r in inner}
        if isinstance(e, ast.Dict):
            inner = set()
            for k, v in zip(e.keys, e.values):
                r = self.ev(v)
                if k is None:
                    # {**x}: shallow copy
                    inner |= {Ref(x.root, 0) for x in r}
                else:
                    inner |= r
            return {Ref(r.root, 1) for r in inner}
        if isinstance(e, (ast.ListComp, ast.SetComp, ast.GeneratorExp, ast.DictComp)):
            for g in e.generators:
                it = self.ev(g.iter)
                self.bind_target(g.target, self.elements(it, g.iter))
                for c in g.ifs:
                    self.ev(c)
            inner = self.ev(e.value) if isinstance(e, ast.DictComp) else self.ev(e.elt)
            return {Ref(r.root, 1) for r in inner}
        if isinstance(e, ast.Lambda):
            self.ev(e.body)
            return set()
        if isinstance(e, (ast.BinOp,)):
            self.ev(e.left)
            self.ev(e.right)
            return set()
        if isinstance(e, ast.Starred):
            return self.ev(e.value)
        if isinstance(e, ast.NamedExpr):
            v = self.ev(e.value)
            self.assign(e.target, v, e)
            return v
        for ch in ast.iter_child_nodes(e):
            if isinstance(ch, ast.expr):
                self.ev(ch)
        return set()

    def call(self, e: ast.Call) -> Set[Ref]:
        args = [self.ev(a.value if isinstance(a, ast.Starred) else a) for a in e.args]
        kwargs = {kw.arg: self.ev(kw.value) for kw in e.keywords}
        f = e.func
        # ---- builtin shallow copies / views
        if isinstance(f, ast.Name):
            if f.id in SHALLOW_COPY_FUNCS:
                inner = args[0] if args else set()
                return {Ref(r.root, 1) for r in inner}
            if f.id in ("iter", "reversed", "enumerate", "zip", "map", "filter"):
                out = set()
                for a in args:
                    out |= {Ref(r.root, 1) for r in a}
                return out
            if f.id in ("next", "max", "min"):
                out = set()
                for a in args:
                    out |= {Ref(r.root, 0) for r in a}
                return out
            if f.id in ("len", "str", "int", "float", "bool", "isinstance", "print", "range", "sum", "any", "all", "type", "hasattr", "repr", "abs", "round", "id"):
                return set()
        if isinstance(f, ast.Attribute):
            dotted = norm(f)
            if dotted in ("copy.deepcopy",):
                return set()
            if dotted in ("copy.copy",):
                return {Ref(r.root, 1) for r in (args[0] if args else set())}
            recv = self.ev(f.value)
            name = f.attr
            # numpy in-place through out=
            if NP_INPLACE_KW in kwargs:
                for r in kwargs[NP_INPLACE_KW]:
                    if r.level == 0:
                        self.mutate(r.root, e, f"`out=` writes into an array that is state of `{r.root}`")
            callees = self.eff.callees.get((self.fi.qualname, id(e)), [])
            if not callees:
                if name in ("append", "add", "setdefault", "insert"):
                    ht = self._holder_table(f.value)
                    if ht is not None:
                        for a in args:
                            self._capture(ht[0], ht[1], a)
                if name in MUTATORS:
                    kmemo = None
                    if isinstance(f.value, ast.Attribute) and isinstance(f.value.value, ast.Name) and f.value.value.id in self.roots:
                        kmemo = self.eff.memo_attr(self.fi, f.value.value, f.value.attr)  # self._cache.pop(key) / .clear()
                    for r in recv:
                        if r.level == 0:
                            self.mutate(r.root, e, f"`.{name}()` on `{norm(f.value)}`, which refers to state of `{r.root}`", kmemo if kmemo and r.root == f.value.value.id else None)
                    return {Ref(r.root, 0) for r in recv} if name in ("pop", "setdefault") else set()
                if name in ("copy",):
                    return {Ref(r.root, 1) for r in recv}
                if name in ("values", "items", "keys", "get", "union", "intersection", "difference", "todense", "toarray", "tocsr"):
                    if name in ("keys", "union", "intersection", "difference", "todense", "toarray", "tocsr"):
                        return set()
                    return {Ref(r.root, 0 if name == "get" else 1) if r.level == 0 else Ref(r.root, r.level) for r in recv} if name != "get" else {Ref(r.root, 0) for r in recv}
                return set()
            return self.repo_call(e, callees, recv, args, kwargs)
        if isinstance(f, ast.Name):
            callees = self.eff.callees.get((self.fi.qualname, id(e)), [])
            if callees:
                return self.repo_call(e, callees, None, args, kwargs)
        return set()

    def repo_call(self, e, callees, recv, args, kwargs) -> Set[Ref]:
        out: Set[Ref] = set()
        for callee in callees:
            pnames = [a.arg for a in callee.params]
            is_method = callee.cls is not None and not callee.is_static and callee.parent is None
            is_ctor = callee.name == "__init__" and recv is None
            binding: Dict[str, Set[Ref]] = {}
            pos = list(args)
            if is_method:
                binding[pnames[0]] = set() if is_ctor else (recv or set())
                rest = pnames[1:]
            else:
                rest = pnames
            for p, a in zip(rest, pos):
                binding[p] = a
            for k, v in kwargs.items():
                if k is not None:
                    binding[k] = v
            # literal flags of the call (and literal defaults) are folded in the callee
            consts = {}
            defaults = callee.defaults()
            lit_pos = list(e.args)
            for p, a in zip(rest, lit_pos):
                if isinstance(a, ast.Constant) and (a.value is None or isinstance(a.value, (bool, int, float, str))):
                    consts[p] = a.value
                elif isinstance(a, ast.Name) and a.id in self.consts and not self._rebound(a.id):
                    consts[p] = self.consts[a.id]  # a literal flag of this context handed on unchanged
            for kw in e.keywords:
                if kw.arg and isinstance(kw.value, ast.Constant) and (kw.value.value is None or isinstance(kw.value.value, (bool, int, float, str))):
                    consts[kw.arg] = kw.value.value
                elif kw.arg and isinstance(kw.value, ast.Name) and kw.value.id in self.consts and not self._rebound(kw.value.id):
                    consts[kw.arg] = self.consts[kw.value.id]
            for p in rest + [a.arg for a in callee.node.args.kwonlyargs]:
                if p not in binding and p in defaults and isinstance(defaults[p], ast.Constant):
                    v = defaults[p].value
                    if v is None or isinstance(v, (bool, int, float, str)):
                        consts[p] = v
            for m in self.eff.mutations(callee, consts):
                for r in binding.get(m.root, ()):
                    if r.level == 0:
                        self.mutate(r.root, e, f"calls {callee.short}, which modifies its `{m.root}` ({loc(m.fi, m.node)}: {m.why})", m.memo)
            # ---- references stored by the callee in one of its other arguments (usually its receiver)
            exprs: Dict[str, ast.AST] = {}
            if is_method and not is_ctor and isinstance(e.func, ast.Attribute):
                exprs[pnames[0]] = e.func.value
            for p, a in zip(rest, e.args):
                exprs[p] = a
            for kw in e.keywords:
                if kw.arg:
                    exprs[kw.arg] = kw.value
            for p, holders in self.eff.captures(callee, consts).items():
                lent = {r for r in binding.get(p, ()) if r.level == 0}
                if not lent:
                    continue
                for q, table in holders:
                    hx = exprs.get(q)
                    if isinstance(hx, ast.Name) and hx.id in self.roots and any(r.level == 0 and r.root == hx.id for r in self.env.get(hx.id, ())):
                        self._capture(hx.id, table, lent)
                    elif isinstance(hx, ast.Name):
                        for r in lent:
                            self.captured.setdefault(hx.id, {}).setdefault(r.root, set()).add(table)
            if is_ctor:
                # a constructed object that stored an argument by reference keeps that alias: handled through mutations of the
                # constructor's parameters above; the new object itself is fresh
                continue
            # ---- a getter called on an object that holds borrowed references hands them out again
            if is_method and isinstance(e.func, ast.Attribute) and isinstance(e.func.value, ast.Name) and self.captured.get(e.func.value.id):
                for table, level in self.eff.lend_tables(callee).items():
                    for root, tabs in self.captured[e.func.value.id].items():
                        if table in tabs:
                            out.add(Ref(root, level))
            lend = self.eff.lends(callee, consts)
            for root, level in lend.items():
                for r in binding.get(root, ()):
                    out.add(Ref(r.root, max(level, r.level) if r.level == 1 else level))
        return out


# ====================================================================== rules
def check_pure(ctx, eff: Effects, res: Result, dotted: str, roots=("self",), consts=None, rule="E-PURE", detail_prefix=""):
    fi = ctx.require(dotted)
    muts = eff.mutations(fi, consts)
    pn = [a.arg for a in fi.params]
    for root in roots:
        if root not in pn:
            res.unknown(rule, fi.short, f"parameter {root}", detail_prefix + root, "no such parameter", loc(fi, fi.node))
            continue
        bad = [m for m in muts if m.root == root]
        if not bad:
            res.ok(rule, fi.short, f"`{root}` is not modified", detail_prefix + root, loc(fi, fi.node))
        for m in bad:
            if m.memo is not None:
                # memoisation: not an observable change by itself - sound exactly when every mutator invalidates it
                res.ok(rule, fi.short, m.text(), detail_prefix + root + f":memo {m.memo[1]}", loc(m.fi, m.node))
                check_cache_coherence(ctx, res, m.memo[0], m.memo[1])
                continue
            if consts and isinstance(m.node, ast.Call) and m.fi is fi:
                # the purity is claimed for a VALUE of a flag (inplace=False).  The flag travels on in a derived form - an Enum, an
                # options tuple, `placement.is_inplace` - that the literal folding cannot follow into the callee: undecided
                fv = ctx.view(fi)

                def mentions_flag(e, depth=0):
                    for x in ast.walk(e):
                        if isinstance(x, ast.Name):
                            if x.id in consts:
                                return True
                            if depth < 4:
                                for a_ in walk_no_nested(fi.node):
                                    if isinstance(a_, ast.Assign) and any(isinstance(t_, ast.Name) and t_.id == x.id for t_ in a_.targets) and mentions_flag(a_.value, depth + 1):
                                        return True
                    return False

                def opaque(e):
                    """not a plain boolean combination of the flag with other simple terms (`inplace or k > 0` is readable: with the
                    flag False it can still be True), but a value that went through a call / an object (`Placement.from_flag(inplace)`,
                    `request.placement`, `placement.is_inplace`)"""
                    return any(isinstance(x, (ast.Call, ast.Attribute, ast.Subscript)) for x in ast.walk(e)) or (isinstance(e, ast.Name) and e.id not in consts)

                def aliases_root(e, depth=0):
                    """the argument is (possibly) the object whose purity is claimed - `target_hg = hg` - not a carrier of the flag"""
                    if isinstance(e, ast.Name):
                        if e.id == root:
                            return True
                        if depth < 3:
                            return any(isinstance(a_, ast.Assign) and any(isinstance(t_, ast.Name) and t_.id == e.id for t_ in a_.targets) and aliases_root(a_.value, depth + 1) for a_ in walk_no_nested(fi.node))
                    return False

                derived = [a_ for a_ in list(m.node.args) + [k.value for k in m.node.keywords] if not (isinstance(a_, ast.Name) and a_.id in consts) and not aliases_root(a_) and mentions_flag(a_) and opaque(a_)]
                if derived:
                    res.unknown(rule, fi.short, m.text(), detail_prefix + root, f"the callee is handed `{norm(derived[0])[:40]}`, a value derived from the flag; whether it modifies `{root}` for this value of the flag was not decided", loc(m.fi, m.node))
                    continue
            res.violation(rule, fi.short, m.text(), detail_prefix + root, f"{m.why} - but {fi.short} must leave `{root}` unchanged", loc(m.fi, m.node))


def _fold_test(test, consts) -> Optional[bool]:
    st = _State.__new__(_State)
    st.consts = consts
    return _State.fold(st, test)


def live_reads(ctx, fi: FunctionInfo, consts: Dict[str, object], depth: int = 0, _seen=None) -> Set[Tuple[str, str]]:
    """(class, table) read by `fi` under the literal bindings `consts` (arms of `if <literal flag>` that cannot run are
    skipped), including the reads of the same-object methods it calls with their own literal arguments / defaults."""
    _seen = _seen if _seen is not None else set()
    key = (fi.qualname, tuple(sorted(consts.items())))
    if key in _seen or depth > 4:
        return set()
    _seen.add(key)
    v = ctx.view(fi)
    dead = set()
    for n in walk_no_nested(fi.node):
        if isinstance(n, ast.If):
            f = _fold_test(n.test, consts)
            arm = n.orelse if f is True else (n.body if f is False else [])
            for st in arm:
                for x in ast.walk(st):
                    dead.add(id(x))
        if isinstance(n, ast.IfExp):
            f = _fold_test(n.test, consts)
            arm = n.orelse if f is True else (n.body if f is False else None)
            if arm is not None:
                for x in ast.walk(arm):
                    dead.add(id(x))
    # a `return` in a live, decided arm ends the function: what follows that `if` is dead as well
    body = fi.node.body if isinstance(fi.node.body, list) else []
    ended = False
    for st in body:
        if ended:
            for x in ast.walk(st):
                dead.add(id(x))
            continue
        if isinstance(st, ast.If):
            f = _fold_test(st.test, consts)
            arm = st.body if f is True else (st.orelse if f is False else None)
            if arm and isinstance(arm[-1], (ast.Return, ast.Raise)):
                ended = True
    out = set()
    for o in v.ops():
        if o.op in ("read", "iter", "member") and id(o.node) not in dead:
            out.add((o.cls, o.table))
    for n in walk_no_nested(fi.node):
        if isinstance(n, ast.Call) and id(n) not in dead:
            for callee in v._same_object_callees(n):
                pn = [a.arg for a in callee.params]
                if callee.cls is not None and not callee.is_static:
                    pn = pn[1:]
                c2 = {}
                for p_, a_ in zip(pn, n.args):
                    if isinstance(a_, ast.Constant):
                        c2[p_] = a_.value
                    elif isinstance(a_, ast.Name) and a_.id in consts:
                        c2[p_] = consts[a_.id]
                    else:
                        c2[p_] = ...
                for kw in n.keywords:
                    if kw.arg:
                        c2[kw.arg] = kw.value.value if isinstance(kw.value, ast.Constant) else (consts[kw.value.id] if isinstance(kw.value, ast.Name) and kw.value.id in consts else ...)
                    else:
                        c2 = {q: ... for q in pn}
                for q, d in callee.defaults().items():
                    if q not in c2 and isinstance(d, ast.Constant):
                        c2[q] = d.value
                c2 = {k: v_ for k, v_ in c2.items() if v_ is not ... and (v_ is None or isinstance(v_, (bool, int, float, str)))}
                out |= live_reads(ctx, callee, c2, depth + 1, _seen)
    return out


def check_cache_coherence(ctx, res: Result, cls: str, attr: str, rule="E-CACHE"):
    """`self.<attr>` is a memo of derived data filled by a query.  Every method of the class that changes a table the memo is
    computed from has to rebind the memo (reset / refill) on every path through that change - itself, or through a method
    of the same object that rebinds it on all of its paths."""
    if (cls, attr) in res.__dict__.setdefault("_cache_done", set()):
        return
    res._cache_done.add((cls, attr))
    res.rules.setdefault(rule, "a value cached on the object by a query is rebound by every method that changes the tables it was computed from")
    methods = ctx.methods(cls)
    memo_always: Dict[str, bool] = {}
    keyed: Set[int] = set()  # CFG ids (of any method) at which only SOME entries of a keyed memo are dropped
    keyed_methods: Set[str] = set()
    keyed_of: Dict[tuple, bool] = {}
    # methods that drop entries of the keyed memo one by one (possibly in a loop, possibly not on every path)
    for m_ in methods.values():
        me_ = m_.params[0].arg if m_.params else "self"
        for n_ in walk_no_nested(m_.node):
            if isinstance(n_, ast.Call) and isinstance(n_.func, ast.Attribute) and n_.func.attr in ("pop", "popitem") and isinstance(n_.func.value, ast.Attribute) and n_.func.value.attr == attr and isinstance(n_.func.value.value, ast.Name) and n_.func.value.value.id == me_:
                keyed_methods.add(m_.qualname)
            if isinstance(n_, ast.Delete) and any(isinstance(t_, ast.Subscript) and isinstance(t_.value, ast.Attribute) and t_.value.attr == attr and isinstance(t_.value.value, ast.Name) and t_.value.value.id == me_ for t_ in n_.targets):
                keyed_methods.add(m_.qualname)

    def rebind_points(fi, depth=0):
        """CFG ids of statements after which the memo has certainly been rebound"""
        v = ctx.view(fi)
        me = fi.params[0].arg if fi.params else "self"
        pts = set()
        for n in walk_no_nested(fi.node):
            if isinstance(n, (ast.Assign, ast.AnnAssign, ast.Delete)):
                tg = n.targets if not isinstance(n, ast.AnnAssign) else [n.target]
                if any(isinstance(t, ast.Attribute) and t.attr == attr and isinstance(t.value, ast.Name) and t.value.id == me for t in tg):
                    cid = v.cfg_id(n)
                    if cid is not None:
                        pts.add(cid)
                # keyed memo: entries dropped one by one (`del self._cache[key]`) - WHICH entries is not decided here
                if isinstance(n, ast.Delete) and any(isinstance(t, ast.Subscript) and isinstance(t.value, ast.Attribute) and t.value.attr == attr and isinstance(t.value.value, ast.Name) and t.value.value.id == me for t in tg):
                    cid = v.cfg_id(n)
                    if cid is not None:
                        pts.add(cid)
                        keyed.add(cid)
            if isinstance(n, ast.Call) and isinstance(n.func, ast.Attribute) and n.func.attr in ("clear", "pop", "popitem") and isinstance(n.func.value, ast.Attribute) and n.func.value.attr == attr and isinstance(n.func.value.value, ast.Name) and n.func.value.value.id == me:
                cid = v.cfg_id(n)
                if cid is not None:
                    pts.add(cid)
                    if n.func.attr != "clear":
                        keyed.add(cid)
            if isinstance(n, ast.Call) and depth < 3:
                for c in v._same_object_callees(n):
                    if always(c, depth + 1) or c.qualname in keyed_methods:
                        cid = v.cfg_id(n)
                        if cid is not None:
                            pts.add(cid)
                            if c.qualname in keyed_methods:
                                keyed_of[("node", fi.qualname, cid)] = True
        return pts

    def always(fi, depth=0):
        if fi.qualname in memo_always:
            return memo_always[fi.qualname]
        memo_always[fi.qualname] = False
        v = ctx.view(fi)
        pts = rebind_points(fi, depth)
        r = bool(pts) and not v.cfg.reaches_without(v.cfg.entry, v.cfg.exit, pts)
        memo_always[fi.qualname] = r
        return r

    def direct_rebind(fi):
        me = fi.params[0].arg if fi.params else "self"
        if any(isinstance(n, ast.Assign) and any(isinstance(t, ast.Attribute) and t.attr == attr and isinstance(t.value, ast.Name) and t.value.id == me for t in n.targets) and not (isinstance(n.value, ast.Constant) and n.value.value is None) and not (isinstance(n.value, ast.Dict) and not n.value.keys) and norm(n.value) not in ("dict()", "{}") for n in walk_no_nested(fi.node)):
            return True
        # keyed memo: the filler stores an entry `self._cache[key] = value`
        return any(isinstance(n, ast.Assign) and any(isinstance(t, ast.Subscript) and isinstance(t.value, ast.Attribute) and t.value.attr == attr and isinstance(t.value.value, ast.Name) and t.value.value.id == me for t in n.targets) for n in walk_no_nested(fi.node))

    fillers = [fi for fi in methods.values() if fi.name != "__init__" and direct_rebind(fi)]
    is_keyed = bool(keyed_methods) or any(isinstance(n, ast.Assign) and any(isinstance(t, ast.Subscript) and isinstance(t.value, ast.Attribute) and t.value.attr == attr for t in n.targets) for fi in fillers for n in walk_no_nested(fi.node))
    deps = set()
    for fi in fillers:
        consts = {q: d.value for q, d in fi.defaults().items() if isinstance(d, ast.Constant) and (d.value is None or isinstance(d.value, (bool, int, float, str)))}
        deps |= {tab for (c, tab) in live_reads(ctx, fi, {}) if c == cls}
    if not fillers or not deps:
        res.unknown(rule, f"{cls}", f"self.{attr}", "depends-on", "the tables the cached value is computed from were not determined", "")
        return
    res.ok(rule, fillers[0].short, f"self.{attr}", "depends-on:" + ",".join(sorted(deps)), loc(fillers[0], fillers[0].node))
    # tables whose VALUES (not only whose keys) the cached quantity is computed from: `self.T[k]`, T.get / values / items
    value_deps = set()
    for fi in fillers:
        me = fi.params[0].arg if fi.params else "self"
        for x in walk_no_nested(fi.node):
            base = None
            if isinstance(x, ast.Subscript) and isinstance(x.ctx, ast.Load):
                base = x.value
            elif isinstance(x, ast.Call) and isinstance(x.func, ast.Attribute) and x.func.attr in ("get", "values", "items"):
                base = x.func.value
            if isinstance(base, ast.Attribute) and isinstance(base.value, ast.Name) and base.value.id == me and base.attr in deps:
                value_deps.add(base.attr)
    n = 0
    for name, fi in sorted(methods.items()):
        if name == "__init__":
            continue
        v = ctx.view(fi)
        writes = [o for o in v.ops() if o.is_write and o.cls == cls and o.table in deps]
        if not writes:
            continue
        pts = rebind_points(fi)
        for o in writes:
            n += 1
            hard = not o.elem_level and not o.may and (o.op in ("store", "del", "clear", "setattr", "remove") or (o.op == "aug" and o.table in value_deps))
            cid = v.cfg_id(o.node)
            covered = cid is not None and (cid in pts or not (v.cfg.reaches_without(v.cfg.entry, cid, pts) and v.cfg.reaches_without(cid, v.cfg.exit, pts)))
            whole = pts - keyed - {c_ for c_ in pts if _via_keyed(ctx, v, c_, keyed_of)}
            fully = cid is not None and (cid in whole or not (v.cfg.reaches_without(v.cfg.entry, cid, whole) and v.cfg.reaches_without(cid, v.cfg.exit, whole)))
            if covered and not fully:
                res.unknown(rule, fi.short, o.text(), f"rebound:{o.table}", f"entries of the keyed cache self.{attr} are dropped one by one on this path; whether they are the entries that depend on the change is not decided here (K-MEMOKEY checks the units of the keys)", loc(fi, o.node))
            elif covered:
                res.ok(rule, fi.short, o.text(), f"rebound:{o.table}", loc(fi, o.node))
            elif hard and is_keyed:
                res.unknown(rule, fi.short, o.text(), f"rebound:{o.table}", f"{fi.short} changes {o.table} without touching the keyed cache self.{attr}; whether any cached entry depends on the changed entry is not decided", loc(fi, o.node))
            elif hard:
                res.violation(rule, fi.short, o.text(), f"rebound:{o.table}", f"{fi.short} changes {o.table}, from which the cached self.{attr} is computed, on a path that never rebinds the cache: later queries answer from the stale value", loc(fi, o.node))
            else:
                res.unknown(rule, fi.short, o.text(), f"rebound:{o.table}", f"{fi.short} updates entries of {o.table} without rebinding the cached self.{attr}; whether the cached value depends on them is not decided", loc(fi, o.node))
    if n == 0:
        res.unknown(rule, cls, f"self.{attr}", "writers", "no method writing the tables the cache depends on was found", "")


def _via_keyed(ctx, v, cid, keyed_of) -> bool:
    """the rebind point `cid` is a call of a same-object method that drops entries one by one"""
    node = keyed_of.get(("node", v.fi.qualname, cid))
    return bool(node)


def check_deepcopy(ctx, res: Result, dotted: str, rule="E-FRESHCOPY"):
    """copy() hands back an object that shares nothing mutable with self: `copy.deepcopy(self)`, or a hand-built copy
    in which every table with mutable values (adjacency lists, metadata dicts) is deep-copied / rebuilt per value.
    A table of mutable values that is copied one level deep (`dict(self._t)`, `self._t.copy()`) is reported."""
    from .kinds import Atom, Dct, Lst, St

    fi = ctx.require(dotted)
    v = ctx.view(fi)
    rets = [n for n in walk_no_nested(fi.node) if isinstance(n, ast.Return) and n.value is not None]
    if not rets:
        res.violation(rule, fi.short, "return", "deep", "copy() returns nothing", loc(fi, fi.node))
        return
    tables = ctx.interp.class_tables.get(fi.cls.name, {}) if fi.cls is not None else {}

    def mutable_values(tab):
        k = tables.get(tab)
        return isinstance(k, Dct) and (isinstance(k.val, (Lst, St, Dct)) or (isinstance(k.val, Atom) and k.val.name == "META"))

    def shallow_of_self_table(e):
        """the table of self that `e` copies one level deep (or aliases), else None"""
        if is_self_attr(e):
            return e.attr
        if isinstance(e, ast.Call):
            fn = norm(e.func)
            if fn in ("dict", "copy.copy", "list", "set") and len(e.args) == 1 and is_self_attr(e.args[0]):
                return e.args[0].attr
            if isinstance(e.func, ast.Attribute) and e.func.attr == "copy" and is_self_attr(e.func.value) and not e.args:
                return e.func.value.attr
        if isinstance(e, ast.Dict) and len(e.keys) == 1 and e.keys[0] is None and is_self_attr(e.values[0]):
            return e.values[0].attr
        if isinstance(e, ast.DictComp) and len(e.generators) == 1:
            g = e.generators[0]
            it = g.iter
            if isinstance(it, ast.Call) and isinstance(it.func, ast.Attribute) and it.func.attr == "items" and is_self_attr(it.func.value) and isinstance(g.target, ast.Tuple) and len(g.target.elts) == 2 and isinstance(e.value, ast.Name) and isinstance(g.target.elts[1], ast.Name) and e.value.id == g.target.elts[1].id:
                return it.func.value.attr  # {k: v for k, v in self._t.items()}: the values are the same objects
        return None

    for r in rets:
        e = v.resolve(r.value)
        deep = isinstance(e, ast.Call) and norm(e.func) in ("copy.deepcopy", "deepcopy") and len(e.args) >= 1 and isinstance(e.args[0], ast.Name) and e.args[0].id == "self"
        shallow = (isinstance(e, ast.Call) and norm(e.func) in ("copy.copy", "copy")) or (isinstance(e, ast.Name) and e.id == "self")
        if deep:
            res.ok(rule, fi.short, norm(r), "deep", loc(fi, r))
            continue
        if shallow:
            res.violation(rule, fi.short, norm(r), "deep", "copy() does not return copy.deepcopy(self): tables / metadata dicts are shared between the copy and the original", loc(fi, r))
            continue
        # hand-built copy: the stores into the returned object's tables
        if isinstance(r.value, ast.Name):
            obj = r.value.id
            shared = []
            for n in walk_no_nested(fi.node):
                if isinstance(n, ast.Assign) and len(n.targets) == 1 and isinstance(n.targets[0], ast.Attribute) and isinstance(n.targets[0].value, ast.Name) and n.targets[0].value.id == obj:
                    src = shallow_of_self_table(n.value)
                    if src is not None and mutable_values(src):
                        shared.append((n, src))
            # metadata tables hold user content of any depth: a per-record SHALLOW copy ({k: copy.copy(md) ...} / dict(md) /
            # md.copy()) still shares whatever the records contain (lists, nested dicts)
            for n in walk_no_nested(fi.node):
                if isinstance(n, ast.Assign) and len(n.targets) == 1 and isinstance(n.targets[0], ast.Attribute) and isinstance(n.targets[0].value, ast.Name) and n.targets[0].value.id == obj and isinstance(n.value, ast.DictComp) and len(n.value.generators) == 1:
                    g = n.value.generators[0]
                    it = g.iter
                    if isinstance(it, ast.Call) and isinstance(it.func, ast.Attribute) and it.func.attr == "items" and is_self_attr(it.func.value) and isinstance(g.target, ast.Tuple) and len(g.target.elts) == 2 and isinstance(g.target.elts[1], ast.Name):
                        src = it.func.value.attr
                        k_ = tables.get(src)
                        is_meta = isinstance(k_, Dct) and isinstance(k_.val, Atom) and k_.val.name == "META"
                        val = n.value.value
                        vn = g.target.elts[1].id
                        one_level = (isinstance(val, ast.Call) and norm(val.func) in ("copy.copy", "dict") and len(val.args) == 1 and isinstance(val.args[0], ast.Name) and val.args[0].id == vn) or (isinstance(val, ast.Call) and isinstance(val.func, ast.Attribute) and val.func.attr == "copy" and isinstance(val.func.value, ast.Name) and val.func.value.id == vn) or (isinstance(val, ast.Dict) and len(val.keys) == 1 and val.keys[0] is None)
                        if is_meta and one_level:
                            res.violation(rule, fi.short, norm(n)[:140], "deep:" + src + ":records", f"the records of {src} are copied one level deep: what a metadata record contains (lists, nested dicts) is shared between the copy and the original - copy.deepcopy is what makes the copy independent", loc(fi, n))
                            shared.append((None, src))
            # a copy filled from a SNAPSHOT of the source: `h._restore(self._snapshot())` with `_snapshot` returning `{"_node_metadata":
            # dict(self._node_metadata), ...}` - the one-level copies are made in the helper
            for c_ in walk_no_nested(fi.node):
                if isinstance(c_, ast.Call) and isinstance(c_.func, ast.Attribute) and isinstance(c_.func.value, ast.Name) and c_.func.value.id == obj:
                    for a_ in c_.args:
                        if isinstance(a_, ast.Call) and is_self_attr(a_.func) and not a_.args:
                            for callee in ctx.callees(fi, a_):
                                for r_ in ast.walk(callee.node):
                                    if isinstance(r_, ast.Return) and isinstance(r_.value, ast.Dict):
                                        for val_ in r_.value.values:
                                            src = shallow_of_self_table(val_)
                                            if src is not None and mutable_values(src):
                                                shared.append((c_, src + f" (in {callee.short})"))
            shared_real = [(n, src) for n, src in shared if n is not None]
            if shared and not shared_real:
                continue
            shared = shared_real
            for n, src in shared:
                res.violation(rule, fi.short, norm(n), "deep:" + src, f"the copy receives a one-level copy of {src}, whose values are mutable (lists / metadata dicts): they are shared between the copy and the original, so an in-place update of one shows up in the other", loc(fi, n))
            if shared:
                continue
            # ---- complete: a copy assembled attribute by attribute on a freshly CONSTRUCTED object carries every attribute the
            # constructor initialises; one that is left at its constructor default (`_next_edge_id` back at 0 while the tables
            # already use ids 0..k-1) makes the copy hand out ids that are still alive
            ctor = [a for a in walk_no_nested(fi.node) if isinstance(a, ast.Assign) and len(a.targets) == 1 and isinstance(a.targets[0], ast.Name) and a.targets[0].id == obj and isinstance(a.value, ast.Call)]
            built_fresh = ctor and all(isinstance(a.value.func, ast.Name) and a.value.func.id[:1].isupper() or (isinstance(a.value.func, ast.Call) and norm(a.value.func.func) == "type") for a in ctor)
            assigned = {n.targets[0].attr for n in walk_no_nested(fi.node) if isinstance(n, ast.Assign) and len(n.targets) == 1 and isinstance(n.targets[0], ast.Attribute) and isinstance(n.targets[0].value, ast.Name) and n.targets[0].value.id == obj}
            through_api = any(isinstance(c, ast.Call) and isinstance(c.func, ast.Attribute) and isinstance(c.func.value, ast.Name) and c.func.value.id == obj for c in walk_no_nested(fi.node))
            if built_fresh and assigned and fi.cls is not None:
                kw_given = {k.arg for a in ctor for k in a.value.keywords if k.arg}
                init = fi.cls.init_attrs()
                missing = [a_ for a_ in init if a_ not in assigned and a_.lstrip("_") not in kw_given and a_ not in kw_given]
                if missing and not through_api:
                    res.violation(rule, fi.short, norm(r), "complete:" + missing[0], f"the copy is assembled attribute by attribute on a fresh object, but {', '.join('`' + m + '`' for m in missing[:3])} is never carried over: it stays at its constructor default (an edge-id counter back at 0 while the copied tables already use ids 0..k-1 makes the next insertion into the copy overwrite a live record)", loc(fi, r))
                    continue
                if not missing:
                    res.ok(rule, fi.short, norm(r), "complete", loc(fi, r))
                    continue
        # copy rebuilt from the binary snapshot: h.populate_from_dict(copy.deepcopy(self.expose_data_structures()))
        if isinstance(r.value, ast.Name) and fi.cls is not None and _snapshot_copy(ctx, res, v, fi, r, rule):
            continue
        res.unknown(rule, fi.short, norm(r), "deep", "the returned object is not recognised as copy.deepcopy(self)", loc(fi, r))


def _snapshot_copy(ctx, res, v, fi, r, rule) -> bool:
    """`h = Cls(...); h.populate_from_dict(<deep copy of self.expose_data_structures()>); return h`: the copy holds what the
    snapshot carries - every table of the class has to be both exposed and restored, and the snapshot deep-copied."""
    from . import schema as S

    obj = r.value.id
    cls = fi.cls.name
    call = None
    for n in walk_no_nested(fi.node):
        if isinstance(n, ast.Call) and isinstance(n.func, ast.Attribute) and n.func.attr == "populate_from_dict" and isinstance(n.func.value, ast.Name) and n.func.value.id == obj and n.args:
            call = n
    if call is None:
        return False
    arg = v.inline(call.args[0])
    snap = [x for x in ast.walk(arg) if isinstance(x, ast.Call) and isinstance(x.func, ast.Attribute) and x.func.attr == "expose_data_structures" and isinstance(x.func.value, ast.Name) and x.func.value.id == "self"]
    if not snap:
        return False
    deep = isinstance(arg, ast.Call) and norm(arg.func) in ("copy.deepcopy", "deepcopy")
    res.add(rule, fi.short, norm(call), "deep", "ok" if deep else "violation", "" if deep else "the copy is filled from the tables of self as they are (the snapshot is not deep-copied): tables / metadata dicts are shared between the copy and the original", loc(fi, call))
    try:
        ex = ctx.require(f"{cls}.expose_data_structures")
        po = ctx.require(f"{cls}.populate_from_dict")
    except Exception:
        return True
    written, _ = S._exposed(ex)
    read = S._restored(po)
    ex_open = S._has_other_writes(ex) or not written
    po_open = not read or any(isinstance(n, ast.Call) and isinstance(n.func, ast.Name) and n.func.id == "setattr" for n in ast.walk(po.node)) or any(isinstance(n, (ast.For, ast.While)) for n in ast.walk(po.node))
    for tab in sorted(ctx.interp.class_tables.get(cls, {})):
        if tab in written and tab in read:
            res.ok(rule, fi.short, f"self.{tab}", "snapshot-carries", loc(fi, call))
        else:
            side = "exposed by expose_data_structures" if tab not in written else "restored by populate_from_dict"
            open_ = ex_open if tab not in written else po_open
            res.add(rule, fi.short, f"self.{tab}", "snapshot-carries", "unknown" if open_ else "violation", f"copy() is rebuilt from the binary snapshot, but {tab} is not {side}: the copy silently loses that table and is not equal to the original", loc(fi, call))
    return True


def check_shared_literals(ctx, res: Result, dotted: str, rule="E-SHARED"):
    """One mutable object must not become the value of several table entries:
    dict.fromkeys(keys, <mutable>), [<mutable>] * n."""
    fi = ctx.require(dotted)
    hits = 0
    for n in walk_no_nested(fi.node):
        if isinstance(n, ast.Call) and isinstance(n.func, ast.Attribute) and n.func.attr == "fromkeys" and len(n.args) >= 2 and _is_mutable_literal(n.args[1]):
            hits += 1
            res.violation(rule, fi.short, norm(n), "fromkeys", "dict.fromkeys(keys, <mutable>) shares ONE object between all keys: an in-place update of one entry shows up in all of them", loc(fi, n))
        if isinstance(n, ast.BinOp) and isinstance(n.op, ast.Mult) and isinstance(n.left, ast.List) and any(_is_mutable_literal(x) for x in n.left.elts):
            hits += 1
            res.violation(rule, fi.short, norm(n), "list-mult", "[<mutable>] * n repeats ONE object n times", loc(fi, n))
    # one mutable local, created OUTSIDE a loop, becomes the entry of every key the loop visits (`d.setdefault(k, shared)` /
    # `d[k] = shared`), and entries of `d` are updated in place somewhere in the function
    def mutable_ctor(e):
        return isinstance(e, (ast.Dict, ast.List, ast.Set, ast.ListComp, ast.SetComp, ast.DictComp)) or (isinstance(e, ast.Call) and isinstance(e.func, ast.Name) and e.func.id in ("dict", "list", "set", "defaultdict", "Counter"))

    inplace = ("add", "update", "append", "extend", "discard", "remove", "insert", "pop", "clear", "difference_update", "intersection_update", "setdefault")
    for lp in [x for x in walk_no_nested(fi.node) if isinstance(x, ast.For)]:
        tnames = {x.id for x in ast.walk(lp.target) if isinstance(x, ast.Name)}
        body = [y for st in lp.body for y in ast.walk(st)]
        body_ids = {id(y) for y in body}
        for n in body:
            tab = key = val = None
            if isinstance(n, ast.Call) and isinstance(n.func, ast.Attribute) and n.func.attr == "setdefault" and len(n.args) == 2:
                tab, key, val = n.func.value, n.args[0], n.args[1]
            elif isinstance(n, ast.Assign) and len(n.targets) == 1 and isinstance(n.targets[0], ast.Subscript):
                tab, key, val = n.targets[0].value, n.targets[0].slice, n.value
            if tab is None or not isinstance(val, ast.Name) or not ({x.id for x in ast.walk(key) if isinstance(x, ast.Name)} & tnames):
                continue
            stores = [x for x in ast.walk(fi.node) if isinstance(x, ast.Name) and isinstance(x.ctx, ast.Store) and x.id == val.id]
            defs = [a for a in walk_no_nested(fi.node) if isinstance(a, ast.Assign) and len(a.targets) == 1 and isinstance(a.targets[0], ast.Name) and a.targets[0].id == val.id]
            if not defs or len(defs) != len(stores) or any(id(a) in body_ids for a in defs) or not all(mutable_ctor(a.value) for a in defs):
                continue
            # the loop must be able to visit two keys: the object is created outside THIS loop (an enclosing loop re-creates it per
            # outer item, which is fine - it is still one object for all keys of the inner loop)
            tname = norm(tab)
            muts = []
            for m in walk_no_nested(fi.node):
                if isinstance(m, ast.Call) and isinstance(m.func, ast.Attribute) and m.func.attr in inplace:
                    r = m.func.value
                    if isinstance(r, ast.Subscript) and norm(r.value) == tname:
                        muts.append(m)
                    elif isinstance(r, ast.Call) and isinstance(r.func, ast.Attribute) and r.func.attr in ("setdefault", "get") and norm(r.func.value) == tname and m.func.attr != "setdefault":
                        muts.append(m)
                if isinstance(m, ast.AugAssign) and isinstance(m.target, ast.Subscript) and norm(m.target.value) == tname and isinstance(m.op, (ast.BitOr, ast.BitAnd, ast.Sub, ast.Add)):
                    muts.append(m)
            if muts:
                hits += 1
                res.violation(rule, fi.short, norm(n)[:100], "loop-shared", f"`{val.id}` (one object, created outside the loop at line {defs[0].lineno}) becomes the entry of every key this loop visits, and entries of `{tname}` are updated in place (`{norm(muts[0])[:50]}`): an update meant for one key shows up under all keys that share the object", loc(fi, n))
    if hits == 0:
        res.ok(rule, fi.short, "no shared mutable literal", "scan", loc(fi, fi.node))


def _is_mutable_literal(e) -> bool:
    if isinstance(e, (ast.Dict, ast.List, ast.Set)):
        return True
    return isinstance(e, ast.Call) and isinstance(e.func, ast.Name) and e.func.id in ("dict", "list", "set") and not e.args

"""Parameter forwarding rules (DESIGN 2.H): F-USE (a received parameter is actually used) and
F-FWD (an order/size filter received by a function reaches the callee that applies it, under the right name)."""
from __future__ import annotations

import ast
from typing import Iterable

from .kinds import NONE, ORDER, SIZE, Const, K, Union, _Top, fits, may_be_none, only_none, strip_none, Mismatch
from .model import loc, norm, walk_no_nested
from .report import Result

FILTERS = ("order", "size")
KIND_OF = {"order": ORDER, "size": SIZE}


def check_use(ctx, res: Result, dotted: str, params: Iterable[str], rule="F-USE"):
    """Each listed parameter has a use other than `is None` tests (i.e. it influences the result)."""
    v = ctx.view(dotted)
    f = v.fi.short
    names = {a.arg for a in v.fi.params} | {a.arg for a in v.fi.node.args.kwonlyargs}
    for p in params:
        if p not in names:
            continue
        uses = 0
        for n in ast.walk(v.fi.node):
            if isinstance(n, ast.Name) and n.id == p and isinstance(n.ctx, ast.Load):
                par = v.parent.get(id(n))
                if isinstance(par, ast.Compare) and len(par.ops) == 1 and isinstance(par.ops[0], (ast.Is, ast.IsNot)) and isinstance(par.comparators[0], ast.Constant) and par.comparators[0].value is None:
                    continue
                uses += 1
        res.check(uses > 0, rule, f, f"parameter {p}", p, f"parameter `{p}` is received but never used: the caller's {p} has no effect on the result", loc(v.fi, v.fi.node))


def check_forwarding(ctx, res: Result, callers: Iterable[str], rule="F-FWD"):
    """For every call from a listed function that has an order/size filter to a repo callable that has one:
    unless both of the caller's filters are known to be None at the call, at least one filter is forwarded with a
    value that can be non-None, and each forwarded value has the unit of the parameter it is bound to."""
    wanted = set()
    for d in callers:
        wanted.add(ctx.require(d).qualname)
    n = 0
    for cf in ctx.interp.callfacts:
        if cf.caller.qualname not in wanted:
            continue
        caller_params = {a.arg for a in cf.caller.params} | {a.arg for a in cf.caller.node.args.kwonlyargs}
        callee_params = {a.arg for a in cf.callee.params} | {a.arg for a in cf.callee.node.args.kwonlyargs}
        fp = [p for p in FILTERS if p in caller_params]
        gp = [p for p in FILTERS if p in callee_params]
        if not fp or not gp:
            continue
        n += 1
        f = cf.caller.short
        where = loc(cf.caller, cf.node)
        text = norm(cf.node)
        state = {p: may_be_none(cf.env[p]) if p in cf.env else None for p in fp}
        # `if size is not None: order = size - 1` (or `if order is None: order = size - 1`) before the call: from then
        # on `order` carries the filter and `size` is subsumed by it
        for sub in _subsumed(ctx, cf):
            state.pop(sub, None)
        # `order = _as_order(order, size)` / `wanted = combine(order, size)`: a value computed from the filters carries them from
        # then on; whether the filters are absent at the call is what the carrier's own None-ness says
        for carrier, carried in _carriers(ctx, cf, fp).items():
            if carrier not in cf.env:
                continue
            for sub in carried:
                if sub != carrier:
                    state.pop(sub, None)
            state[carrier] = may_be_none(cf.env[carrier])
        if not state:
            continue
        if all(s is True for s in state.values()):
            res.ok(rule, f, text, f"{cf.callee.short}:unfiltered-branch", where)
            continue
        forwarded = {}
        for q in gp:
            if q in cf.bound and may_be_none(cf.bound[q]) is not True:
                forwarded[q] = cf.bound[q]
        from .kinds import Kw

        opaque_star = any(isinstance(x, ast.Starred) for x in cf.node.args) or any(kw.arg is None and not isinstance(strip_none(ctx.interp.kind_at(cf.caller, kw.value)), Kw) for kw in cf.node.keywords)
        if not forwarded and opaque_star:
            res.unknown(rule, f, text, f"{cf.callee.short}:forwarded", "arguments are passed through * / ** unpacking: what is forwarded is not visible at the call", where)
            continue
        # `hg.degree(node, **selection)` with `selection = _order_filter(order, size)`: the filter travels inside the keyword dict
        star_carrier = [kw.value.id for kw in cf.node.keywords if kw.arg is None and isinstance(kw.value, ast.Name) and kw.value.id in _carriers(ctx, cf, fp)]
        if not forwarded and star_carrier:
            res.unknown(rule, f, text, f"{cf.callee.short}:forwarded", f"the filter is handed on inside `**{star_carrier[0]}`, a keyword dict computed from the caller's filters", where)
            continue
        if not forwarded and _under_opaque_filter_test(ctx, cf, [p for p, s_ in state.items() if s_ is not True]):
            res.unknown(rule, f, text, f"{cf.callee.short}:forwarded", "the unfiltered call stands under a test computed from the caller's filters by a predicate that is not a plain None test (an `is_open`-style helper): whether the filters are absent there is not decided", where)
            continue
        res.check(
            bool(forwarded),
            rule,
            f,
            text,
            f"{cf.callee.short}:forwarded",
            f"the caller's {'/'.join(fp)} filter is not forwarded to {cf.callee.short} (omitted or literal None): the query is answered for the unfiltered hypergraph",
            where,
        )
        if forwarded and "up_to" in caller_params and "up_to" in callee_params and not opaque_star:
            _check_upto_forwarded(ctx, res, cf, fp, forwarded, rule, f, text, where)
        for q, k in forwarded.items():
            v = fits(k, KIND_OF[q])
            if isinstance(v, Mismatch):
                res.violation(rule, f, text, f"{cf.callee.short}:{q}", f"`{q}` of {cf.callee.short} receives a {strip_none(k)!r} value ({v.reason}): order and size are swapped or not converted (size = order + 1)", where)
            else:
                res.ok(rule, f, text, f"{cf.callee.short}:{q}", where)
    return n


def _subsumed(ctx, cf):
    v = ctx.view(cf.caller)
    cid = v.cfg_id(cf.node)
    out = set()
    if cid is None:
        return out
    for n in walk_no_nested(cf.caller.node):
        if not isinstance(n, ast.If):
            continue
        for st in n.body:
            if isinstance(st, ast.Assign) and len(st.targets) == 1 and isinstance(st.targets[0], ast.Name) and st.targets[0].id in FILTERS and isinstance(st.value, ast.BinOp) and isinstance(st.value.left, ast.Name) and st.value.left.id in FILTERS and st.value.left.id != st.targets[0].id:
                tid = v.cfg.by_ast.get(id(n.test))
                if tid is not None and v.cfg.dominates(tid, cid) and tid != cid:
                    out.add(st.value.left.id)
    return out


def _under_opaque_filter_test(ctx, cf, open_filters) -> bool:
    """the call is control-dependent on an `if` whose test hands every still-open filter to a call (a predicate over them)"""
    if not open_filters:
        return False
    v = ctx.view(cf.caller)
    cid = v.cfg_id(cf.node)
    if cid is None:
        return False
    for iff in walk_no_nested(cf.caller.node):
        if not isinstance(iff, (ast.If, ast.IfExp)):
            continue
        tid = v.cfg.by_ast.get(id(iff.test))
        if tid is None or tid == cid:
            continue
        t_i = v.inline(iff.test)
        in_calls = set()
        for c in ast.walk(t_i):
            if isinstance(c, ast.Call):
                in_calls |= {x.id for a in list(c.args) + [k.value for k in c.keywords] for x in ast.walk(a) if isinstance(x, ast.Name)}
        # a carrier object asked about itself: `if query.unfiltered:` / `if query.is_open():`
        for c in ast.walk(iff.test):
            if isinstance(c, ast.Attribute) and isinstance(c.value, ast.Name):
                in_calls.add(c.value.id)
        if not set(open_filters) <= in_calls:
            continue
        if any(v.cfg.branch_dominated(tid, lab, cid) for lab in ("T", "F")):
            return True
    return False


def _carriers(ctx, cf, fp):
    """{name: filters it was computed from} for assignments `name = <expression mentioning filter parameters>` that dominate
    the call and whose value is not a plain copy of one filter (a call / conditional / arithmetic over them)."""
    v = ctx.view(cf.caller)
    cid = v.cfg_id(cf.node)
    out = {}
    if cid is None:
        return out
    for n in walk_no_nested(cf.caller.node):
        if not (isinstance(n, ast.Assign) and len(n.targets) == 1 and isinstance(n.targets[0], ast.Name)):
            continue
        if isinstance(n.value, (ast.Name, ast.Constant)):
            continue
        used = {x.id for x in ast.walk(n.value) if isinstance(x, ast.Name) and isinstance(x.ctx, ast.Load) and x.id in fp}
        # every filter the caller has must go into the value: a value computed from one of two filters speaks for that one only
        if set(fp) - used - {n.targets[0].id}:
            continue
        if not used:
            continue
        sid = v.cfg_id(n)
        if sid is None or sid == cid or not v.cfg.dominates(sid, cid):
            continue
        # a carrier speaks for the filters where it is USED in their place: as an argument of the call, or in a test the call stands
        # under.  (`as_source = self.get_source_edges(node, order=order, size=size)` before `self.get_target_edges(node, order=order,
        # size=size)` is a result computed with the filters, not their stand-in)
        cname = n.targets[0].id
        in_call = any(isinstance(x, ast.Name) and x.id == cname for a_ in list(cf.node.args) + [k.value for k in cf.node.keywords] for x in ast.walk(a_))
        in_test = any(isinstance(x, ast.Name) and x.id == cname for i_ in v.enclosing_all(cf.node, (ast.If, ast.IfExp, ast.While)) for x in ast.walk(i_.test))
        if cname not in fp and not in_call and not in_test:
            # an early exit under a test of the carrier (`if selection is None: return ...`) also counts
            early = any(isinstance(i_, ast.If) and any(isinstance(x, ast.Name) and x.id == cname for x in ast.walk(i_.test)) for i_ in walk_no_nested(cf.caller.node))
            if not early:
                continue
        out[cname] = used
    # a carrier assigned on both arms of ONE conditional: `if size is not None: effective_order = size - 1 else: effective_order = order`
    by_name = {}
    for n in walk_no_nested(cf.caller.node):
        if isinstance(n, ast.Assign) and len(n.targets) == 1 and isinstance(n.targets[0], ast.Name) and n.targets[0].id not in out and n.targets[0].id not in fp:
            by_name.setdefault(n.targets[0].id, []).append(n)
    for cname, ds in by_name.items():
        if len(ds) != 2:
            continue
        ifs = [v.enclosing(d, (ast.If,)) for d in ds]
        if ifs[0] is None or ifs[0] is not ifs[1] or not (any(ds[0] is x for x in ifs[0].body) and any(ds[1] is x for x in ifs[0].orelse) or any(ds[1] is x for x in ifs[0].body) and any(ds[0] is x for x in ifs[0].orelse)):
            continue
        used = set()
        for d in ds:
            used |= {x.id for x in ast.walk(d.value) if isinstance(x, ast.Name) and isinstance(x.ctx, ast.Load) and x.id in fp}
        used |= {x.id for x in ast.walk(ifs[0].test) if isinstance(x, ast.Name) and x.id in fp}
        tid = v.cfg.by_ast.get(id(ifs[0].test))
        if set(fp) - used or tid is None or not v.cfg.dominates(tid, cid):
            continue
        in_call = any(isinstance(x, ast.Name) and x.id == cname for a_ in list(cf.node.args) + [k.value for k in cf.node.keywords] for x in ast.walk(a_))
        in_test = any(isinstance(x, ast.Name) and x.id == cname for i_ in v.enclosing_all(cf.node, (ast.If, ast.IfExp, ast.While)) for x in ast.walk(i_.test))
        if in_call or in_test:
            out[cname] = used
    return out


def _arg_for(cf, pname):
    """the argument expression bound to parameter `pname` at the call, None when omitted"""
    for kw in cf.node.keywords:
        if kw.arg == pname:
            return kw.value
    pn = [a.arg for a in cf.callee.params]
    if cf.callee.cls is not None and not cf.callee.is_static and (isinstance(cf.node.func, ast.Attribute) or cf.callee.name == "__init__") and pn and pn[0] in ("self", "cls"):
        pn = pn[1:]  # (bound call, or a constructor call `Cls(...)` that runs __init__)
    if pname in pn:
        i = pn.index(pname)
        if i < len(cf.node.args) and not any(isinstance(a, ast.Starred) for a in cf.node.args[: i + 1]):
            return cf.node.args[i]
    return None


def _check_upto_forwarded(ctx, res, cf, fp, forwarded, rule, f, text, where):
    """The caller's own order/size parameter is handed on as it is, the callee has an `up_to` switch like the caller,
    and the call leaves it at its default (or a literal): on this path the caller's `up_to` has no effect.  Reported only
    when nothing else on the paths through the call reads `up_to` (a caller may implement the cumulative filter itself)."""
    passed = _arg_for(cf, "up_to")
    if passed is not None and not isinstance(passed, ast.Constant):
        res.ok(rule, f, text, f"{cf.callee.short}:up_to", where)
        return
    direct = [q for q in forwarded if isinstance(_arg_for(cf, q), ast.Name) and _arg_for(cf, q).id in fp]
    if not direct:
        return
    v = ctx.view(cf.caller)
    cid = v.cfg_id(cf.node)
    others = []
    for n in walk_no_nested(cf.caller.node):
        if isinstance(n, ast.Name) and n.id == "up_to" and isinstance(n.ctx, ast.Load):
            nid = v.cfg_id(n)
            tid = None
            cur = n
            while cur is not None and cur is not cf.caller.node:
                if id(cur) in v.cfg.by_ast:
                    tid = v.cfg.by_ast[id(cur)]
                    break
                cur = v.parent.get(id(cur))
            for x in {nid, tid} - {None}:
                if x == cid:
                    continue
                if v.cfg.reachable(x, cid):
                    others.append(n)
                elif v.cfg.reachable(cid, x) and not _excluded_after(v, cf.node, n):
                    others.append(n)
    if cid is None or others:
        res.unknown(rule, f, text, f"{cf.callee.short}:up_to", "up_to is not handed on at this call but is read elsewhere on the paths through it", where)
        return
    res.violation(rule, f, text, f"{cf.callee.short}:up_to", f"the caller's {'/'.join(direct)} filter is handed on but its `up_to` switch is not ({'literal' if passed is not None else 'omitted'}): with up_to=True the query is answered for the exact order/size only", where)


def _excluded_after(v, call, later) -> bool:
    """`X = <... call ...>` and `later` sits under `if X is None [and ...]:` - once X was assigned from the call that arm
    does not run on the same path (the usual `w = None ... if w is None: w = ...` ladder)."""
    st = v.stmt_of(call)
    if not (isinstance(st, ast.Assign) and len(st.targets) == 1 and isinstance(st.targets[0], ast.Name)):
        return False
    if isinstance(st.value, ast.Constant) and st.value.value is None:
        return False
    x = st.targets[0].id
    for iff in v.enclosing_all(later, (ast.If,)):
        in_body = any(later is y for b in iff.body for y in ast.walk(b))
        if not in_body:
            continue
        atoms = iff.test.values if isinstance(iff.test, ast.BoolOp) and isinstance(iff.test.op, ast.And) else [iff.test]
        for a in atoms:
            if isinstance(a, ast.Compare) and len(a.ops) == 1 and isinstance(a.ops[0], ast.Is) and isinstance(a.left, ast.Name) and a.left.id == x and isinstance(a.comparators[0], ast.Constant) and a.comparators[0].value is None:
                # no re-assignment of X to None between the call and the test
                return not any(isinstance(d, ast.Assign) and any(isinstance(t, ast.Name) and t.id == x for t in d.targets) and isinstance(d.value, ast.Constant) and d.value.value is None and d is not st and v.cfg.reachable(v.cfg_id(st), v.cfg_id(d)) for d in walk_no_nested(v.fi.node))
    return False


def check_same_named_forwarding(ctx, res: Result, cls: str, params: Iterable[str], rule="F-SEL"):
    """Sibling agreement inside one class: a method that receives a selection parameter `p` and calls other methods of the
    class that also take a parameter named `p` hands it on at every such call.  Leaving it out (the callee's default applies)
    while the same method hands it to other callees is reported; an explicit other value is the author's choice."""
    n = 0
    for name, fi in sorted(ctx.methods(cls).items()):
        own = {a.arg for a in fi.params} | {a.arg for a in fi.node.args.kwonlyargs}
        for p in params:
            if p not in own:
                continue
            sites = []  # (call, callee, passed expression or None)
            for c in walk_no_nested(fi.node):
                if not (isinstance(c, ast.Call) and isinstance(c.func, ast.Attribute) and isinstance(c.func.value, ast.Name) and c.func.value.id == "self"):
                    continue
                for g in ctx.callees(fi, c):
                    gp = [a.arg for a in g.params][1:] + [a.arg for a in g.node.args.kwonlyargs]
                    if p not in gp or g.cls is not fi.cls:
                        continue
                    passed = None
                    for kw in c.keywords:
                        if kw.arg == p:
                            passed = kw.value
                        if kw.arg is None:
                            passed = kw.value  # **kwargs: not visible
                    pos = [a.arg for a in g.params][1:]
                    if passed is None and p in pos and pos.index(p) < len(c.args):
                        passed = c.args[pos.index(p)]
                    if passed is None and any(isinstance(a, ast.Starred) for a in c.args):
                        passed = c.args[0]
                    sites.append((c, g, passed))
            handed = [s for s in sites if s[2] is not None]
            for c, g, passed in sites:
                n += 1
                if passed is not None:
                    res.ok(rule, fi.short, norm(c), f"{g.name}:{p}", loc(fi, c))
                elif handed:
                    res.violation(rule, fi.short, norm(c), f"{g.name}:{p}", f"`{p}` is handed to {', '.join(sorted({h[1].name for h in handed}))} but left out in this call of {g.name}, whose own `{p}` then takes its default: the quantities are computed for different selections", loc(fi, c))
                else:
                    res.unknown(rule, fi.short, norm(c), f"{g.name}:{p}", f"`{p}` is not handed to {g.name} (nor to any other callee that takes it)", loc(fi, c))
    return n

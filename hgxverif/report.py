"""Obligations, findings, known-findings matching, evidence files."""
from __future__ import annotations

import json
import os
import time
from dataclasses import asdict, dataclass, field
from typing import Dict, List, Optional

VERIF_DIR = os.path.dirname(os.path.dirname(os.path.abspath(__file__)))


@dataclass
class Ob:
    """One obligation: a rule instance at a construct, with its verdict."""

    rule: str
    func: str
    stmt: str
    detail: str = ""
    status: str = "ok"  # ok | violation | unknown
    reason: str = ""
    where: str = ""
    extra: dict = field(default_factory=dict)

    def key(self):
        return (self.rule, self.func, self.stmt, self.detail)

    def ident(self):
        return {"rule": self.rule, "func": self.func, "stmt": self.stmt, "detail": self.detail}


class Result:
    def __init__(self, prop: str):
        self.prop = prop
        self.obs: List[Ob] = []
        self.discovery: Dict[str, object] = {}
        self.assumptions: List[str] = []
        self.rules: Dict[str, str] = {}  # rule -> one-line description
        self.controls: List[dict] = []  # positive controls
        self.notes: List[str] = []

    def add(self, rule, func, stmt, detail="", status="ok", reason="", where="", **extra) -> Ob:
        ob = Ob(rule, func, stmt, detail, status, reason, where, extra)
        self.obs.append(ob)
        return ob

    def ok(self, rule, func, stmt, detail="", where="", **extra):
        return self.add(rule, func, stmt, detail, "ok", "", where, **extra)

    def violation(self, rule, func, stmt, detail="", reason="", where="", **extra):
        return self.add(rule, func, stmt, detail, "violation", reason, where, **extra)

    def unknown(self, rule, func, stmt, detail="", reason="", where="", **extra):
        return self.add(rule, func, stmt, detail, "unknown", reason, where, **extra)

    def check(self, cond: bool, rule, func, stmt, detail="", reason="", where="", **extra):
        return self.add(rule, func, stmt, detail, "ok" if cond else "violation", "" if cond else reason, where, **extra)

    def guard(self, label: str, func: str = ""):
        """Context manager around one rule block: an idiom the rule does not recognise (AnalysisError) or an internal
        error of the rule becomes an `unknown` obligation of that block - the other blocks still run and no alarm is
        raised.  (Missing instance floors and a positive control that does not fire remain analysis errors.)"""
        res = self

        class _G:
            def __enter__(self_inner):
                return self_inner

            def __exit__(self_inner, et, ev, tb):
                if et is None:
                    return False
                if issubclass(et, (KeyboardInterrupt, SystemExit)):
                    return False
                kind = "unrecognised idiom" if et.__name__ == "AnalysisError" else f"internal {et.__name__}"
                res.unknown("UNRECOGNISED", func or res.prop, label, kind, f"{kind}: {ev}")
                res.notes.append(f"rule block `{label}` not applied ({kind}: {ev})")
                return True

        return _G()

    def dedupe(self):
        seen = {}
        rank = {"violation": 2, "ok": 1, "unknown": 0}
        for o in self.obs:
            k = o.key()
            if k not in seen or rank[o.status] > rank[seen[k].status]:
                seen[k] = o
        self.obs = list(seen.values())

    def by_rule(self):
        out: Dict[str, Dict[str, int]] = {}
        for o in self.obs:
            d = out.setdefault(o.rule, {"ok": 0, "violation": 0, "unknown": 0})
            d[o.status] += 1
        return out


def load_known(path: Optional[str] = None) -> dict:
    path = path or os.path.join(VERIF_DIR, "known_findings.json")
    if not os.path.exists(path):
        return {"known": [], "fixed": []}
    with open(path) as f:
        return json.load(f)


def match_known(prop: str, ob: Ob, known: dict) -> Optional[dict]:
    for k in known.get("known", []):
        if k.get("property") != prop:
            continue
        if not all(k.get(f) == getattr(ob, f) for f in ("rule", "func", "stmt", "detail") if f in k):
            continue
        # `stmt_re`: the failing call site with its local variable names abstracted (a renamed loop variable is still the
        # same finding; another call shape, function or callee is not)
        if "func_re" in k:
            import re

            if not re.fullmatch(k["func_re"], ob.func):
                continue
        if "stmt_re" in k:
            import re

            if not re.fullmatch(k["stmt_re"], ob.stmt):
                continue
        return k
    return None


def load_floors() -> dict:
    path = os.path.join(VERIF_DIR, "floors.json")
    if not os.path.exists(path):
        return {}
    with open(path) as f:
        return json.load(f)


def write_evidence(prop: str, tier: str, seed: int, res: Result, stats: dict, wall: float, violations: List[Ob], known_hits: List[dict], level_text: str, selftest: Optional[dict] = None, outdir: Optional[str] = None):
    outdir = outdir or os.path.join(VERIF_DIR, "evidence")
    os.makedirs(outdir, exist_ok=True)
    obs = res.obs
    n_ok = sum(1 for o in obs if o.status == "ok")
    n_unknown = sum(1 for o in obs if o.status == "unknown")
    decided = [o for o in obs if o.status != "unknown"]
    samples = []
    per_rule_seen = {}
    for o in obs:
        c = per_rule_seen.get(o.rule, 0)
        if c < 2:
            per_rule_seen[o.rule] = c + 1
            d = o.ident()
            d["status"] = o.status
            d["where"] = o.where
            if o.reason:
                d["reason"] = o.reason
            samples.append(d)
    coverage = {
        "explanation": level_text,
        "rule": "one obligation per (rule, function, normalised construct, instance detail); an obligation is non-trivial when the rule resolved both sides of its comparison (kinds known / CFG path set non-empty / anchor found), i.e. its status is ok or violation rather than unknown",
        "evaluations": len(obs),
        "distinct_nontrivial": len({o.key() for o in decided}),
        "obligations": len(obs),
        "discharged": n_ok + len(known_hits),
        "unknown": n_unknown,
        "by_rule": res.by_rule(),
        "rules": res.rules,
        "samples": samples[:60],
        "analysed": stats,
        "positive_controls": res.controls,
        "discovery": res.discovery,
        "known_findings_matched": known_hits,
        "notes": res.notes,
        "exhaustive": False,
    }
    if selftest is not None:
        coverage["selftest"] = selftest
    ev = {
        "property_id": prop,
        "tier": tier,
        "seed": seed,
        "level": "other",
        "coverage": coverage,
        "assumptions": res.assumptions,
        "wall_s": round(wall, 3),
        "violations": len(violations),
    }
    path = os.path.join(outdir, f"{prop}.json")
    with open(path, "w") as f:
        json.dump(ev, f, indent=1, sort_keys=False, default=str)
    return path


def write_replay(prop: str, n: int, ob: Ob, outdir: Optional[str] = None) -> str:
    outdir = outdir or os.path.join(VERIF_DIR, "evidence", "replay")
    os.makedirs(outdir, exist_ok=True)
    path = os.path.join(outdir, f"{prop}-{n}.json")
    with open(path, "w") as f:
        json.dump({"property": prop, **asdict(ob)}, f, indent=1, default=str)
    return path
